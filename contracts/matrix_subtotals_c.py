"""Contracts for cr.cube.matrix.subtotals (C04 core; used by C02/C03/C11/C15...)."""
from pvc.harness import Contract, REGISTRY
from .common import mk_dim, size_space_subtotals

MOD = "matrix.subtotals"


def sum_blocks_spec(B, base, R, C, rows, cols, diff_cols_nan, diff_rows_nan):
    """the four blocks of a signed-sum measure as spec tensors (statement of C04)"""

    def sub_cols(i, t):
        return B.ite(
            B.band(diff_cols_nan, cols.is_diff(t)),
            B.NaN(),
            cols.signed_sum(t, lambda j: B.rd(base, i, j)),
        )

    def sub_rows(s, j):
        return B.ite(
            B.band(diff_rows_nan, rows.is_diff(s)),
            B.NaN(),
            rows.signed_sum(s, lambda i: B.rd(base, i, j)),
        )

    def inter(s, t):
        nan = B.bor(
            B.band(rows.is_diff(s), cols.is_diff(t)),
            B.band(cols.is_diff(t), diff_cols_nan),
            B.band(rows.is_diff(s), diff_rows_nan),
        )
        # accumulated column-first (the code accumulates row-first): same value
        return B.ite(
            nan,
            B.NaN(),
            cols.signed_sum(t, lambda j: rows.signed_sum(s, lambda i: B.rd(base, i, j))),
        )

    return [
        [B.spec_tensor((R, C), lambda i, j: B.rd(base, i, j)), B.spec_tensor((R, cols.S), sub_cols)],
        [B.spec_tensor((rows.S, C), sub_rows), B.spec_tensor((rows.S, cols.S), inter)],
    ]


def check_blocks(B, name, blocks, expected):
    B.check(name + ":is-2x2", len(blocks) == 2 and len(blocks[0]) == 2 and len(blocks[1]) == 2)
    for a in (0, 1):
        for b in (0, 1):
            B.eq_tensor("%s[%d][%d]" % (name, a, b), blocks[a][b], expected[a][b])


class SumSubtotalsBlocks(Contract):
    name = MOD + ":SumSubtotals.blocks"
    props = ("C04", "C15", "C02", "C03", "C11")

    def configs(self):
        return [dict(dc=dc, dr=dr) for dc in (False, True) for dr in (False, True)]

    def size_space(self, cfg):
        sp = {"R": [1, 2, 3], "C": [1, 2, 3]}
        sp.update(size_space_subtotals("rows"))
        sp.update(size_space_subtotals("cols"))
        return sp

    def run(self, B, cfg):
        R, C = B.size("R"), B.size("C")
        base = B.tensor("base", (R, C), maybe_nan=True)
        rdim, rows = mk_dim(B, "rows", R)
        cdim, cols = mk_dim(B, "cols", C)
        blocks = B.cls(MOD + ":SumSubtotals").blocks(
            base, (rdim, cdim), diff_cols_nan=cfg["dc"], diff_rows_nan=cfg["dr"]
        )
        check_blocks(B, "blocks", blocks, sum_blocks_spec(B, base, R, C, rows, cols, cfg["dc"], cfg["dr"]))


REGISTRY.append(SumSubtotalsBlocks())


# C10 (exchange of the two dimensions) rests on every class-level contract of this module: the
# row-direction result of a response equals the transposed column-direction result of the
# exchanged response because each class meets its own spec function and the spec functions
# are mirror images (contracts/mirror_c.py).  A change that breaks one of a pair of twins
# fails that class's contract, so each of them is also run by the C10 check.
for _c in REGISTRY:
    if (_c.__class__.__module__ == __name__ and "C10" not in _c.props and "lemma." not in _c.name
            and not any(w in _c.name for w in ())):
        _c.props = tuple(_c.props) + ("C10",)
