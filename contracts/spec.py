"""Spec functions taken from the property statements (properties.jsonl), written once and
used both as postconditions of the functions that implement them and as the assumed
results of those functions when a caller is verified (modular cut).

Notation (DESIGN 5): T is the measure tensor of a 2-D slice already restricted to valid
elements.  Axes: row items [R], then -- if the rows dimension is MR -- its selection axis
[0 = selected, 1 = other], column items [C], then the column selection axis if MR.
Kinds: 'CAT' | 'MR' | 'ARR'.
"""

KINDS = ("CAT", "MR", "ARR")
PAIRS = [(r, c) for r in KINDS for c in KINDS]

CLASS_OF_PAIR = {
    ("MR", "MR"): "_MrXMrCubeCounts",
    ("MR", "ARR"): "_MrXArrCubeCounts",
    ("MR", "CAT"): "_MrXCatCubeCounts",
    ("ARR", "MR"): "_ArrXMrCubeCounts",
    ("ARR", "ARR"): "_ArrXArrCubeCounts",
    ("ARR", "CAT"): "_ArrXCatCubeCounts",
    ("CAT", "MR"): "_CatXMrCubeCounts",
    ("CAT", "ARR"): "_CatXArrCubeCounts",
    ("CAT", "CAT"): "_CatXCatCubeCounts",
}


def tensor_shape(rk, ck, R, C):
    sh = [R]
    if rk == "MR":
        sh.append(2)
    sh.append(C)
    if ck == "MR":
        sh.append(2)
    return tuple(sh)


def t_at(B, T, rk, ck, i, si, j, sj):
    idx = [i]
    if rk == "MR":
        idx.append(si)
    idx.append(j)
    if ck == "MR":
        idx.append(sj)
    return B.rd(T, *idx)


def over_cols(B, ck, C, j, f):
    """sum f(j', s') over the column-side states a respondent eligible for the row
    proportion of cell (., j) can be in: any category (CAT), selected or other on item j
    (MR), the item itself (ARR)."""
    if ck == "CAT":
        return B.Sum(C, lambda j2: f(j2, 0))
    if ck == "MR":
        return f(j, 0) + f(j, 1)
    return f(j, 0)


def over_rows(B, rk, R, i, f):
    if rk == "CAT":
        return B.Sum(R, lambda i2: f(i2, 0))
    if rk == "MR":
        return f(i, 0) + f(i, 1)
    return f(i, 0)


def count(B, T, rk, ck, i, j):
    """respondents belonging to row element i and column element j (MR: selected)"""
    return t_at(B, T, rk, ck, i, 0, j, 0)


def row_base(B, T, rk, ck, R, C, i, j):
    """members of row element i with a valid answer on the column dimension (item j)"""
    return over_cols(B, ck, C, j, lambda j2, sj: t_at(B, T, rk, ck, i, 0, j2, sj))


def column_base(B, T, rk, ck, R, C, i, j):
    return over_rows(B, rk, R, i, lambda i2, si: t_at(B, T, rk, ck, i2, si, j, 0))


def table_base(B, T, rk, ck, R, C, i, j):
    return over_rows(
        B, rk, R, i,
        lambda i2, si: over_cols(B, ck, C, j, lambda j2, sj: t_at(B, T, rk, ck, i2, si, j2, sj)),
    )


def rows_pruning_base(B, T, rk, ck, R, C, i):
    """C09: eligible unweighted respondents of row vector i over the opposing dimension;
    an MR item counts selected + not-selected answers except against another MR."""
    if rk == "MR" and ck == "MR":
        return B.Sum(C, lambda j: t_at(B, T, rk, ck, i, 0, j, 0) + t_at(B, T, rk, ck, i, 0, j, 1))
    if rk == "MR":
        return B.Sum(C, lambda j: t_at(B, T, rk, ck, i, 0, j, 0) + t_at(B, T, rk, ck, i, 1, j, 0))
    return B.Sum(C, lambda j: row_base(B, T, rk, ck, R, C, i, j))


def columns_pruning_base(B, T, rk, ck, R, C, j):
    if rk == "MR" and ck == "MR":
        return B.Sum(R, lambda i: t_at(B, T, rk, ck, i, 0, j, 0) + t_at(B, T, rk, ck, i, 1, j, 0))
    if ck == "MR":
        return B.Sum(R, lambda i: t_at(B, T, rk, ck, i, 0, j, 0) + t_at(B, T, rk, ck, i, 0, j, 1))
    return B.Sum(R, lambda i: column_base(B, T, rk, ck, R, C, i, j))
