"""Contracts for the remaining cube-measure classes of cr.cube.matrix.cubemeasure:
unconditional counts / baselines (C16), factories and slice-index expression (C06, C01),
means / sums / stddev / medians plane selectors (C01), overlaps (C13)."""
from pvc.harness import Contract, REGISTRY
from . import spec

MOD = "matrix.cubemeasure"


# ---- C16 baselines ---------------------------------------------------------------------
class _Baseline(Contract):
    """baseline[i, j] = unconditional share of row element i: members of the row element
    over those eligible for it, counted regardless of the column answer (valid or missing).
    T+ carries *all* elements (valid and missing) on the row and column axes and, for MR,
    the selected/other/missing axis."""

    props = ("C16",)
    rk = ck = None

    def __init__(self):
        self.cls = {
            ("CAT", "CAT"): "_CatXCatUnconditionalCubeCounts",
            ("CAT", "MR"): "_CatXMrUnconditionalCubeCounts",
            ("MR", "CAT"): "_MrXCatUnconditionalCubeCounts",
            ("MR", "MR"): "_MrXMrUnconditionalCubeCounts",
        }[(self.rk, self.ck)]
        self.name = "%s:%s.baseline" % (MOD, self.cls)

    def size_space(self, cfg):
        return {"Rall": [1, 2, 3], "Call": [1, 2, 3], "R": [1, 2]}

    def run(self, B, cfg):
        rk, ck = self.rk, self.ck
        Rall, Call = B.size("Rall", lo=1), B.size("Call", lo=1)
        shape = [Rall] + ([3] if rk == "MR" else []) + [Call] + ([3] if ck == "MR" else [])
        T = B.tensor("Tplus", tuple(shape), nonneg=True)
        if rk == "MR" and ck == "MR":
            R = Rall  # an MR items dimension has no missing elements (listed assumption)
            v = None
        else:
            R = B.size("R", lo=1)
            v = B.idx_list("v_rows", R, Rall)
        rows_dim = B.stub(
            "rows_dimension",
            valid_elements=B.stub("valid_elements", element_idxs=v if v is not None else B.idx_list("v_rows", R, Rall)),
        )
        obj = B.new("%s:%s" % (MOD, self.cls), (rows_dim, B.stub("columns_dimension")), T)
        rd = B.rd

        def vi(i):
            return B.idx_at(v, i) if v is not None else i

        def t(i, si, j, sj):
            idx = [i] + ([si] if rk == "MR" else []) + [j] + ([sj] if ck == "MR" else [])
            return rd(T, *idx)

        def col_all(i, si, j):
            """all column answers of (row i, state si) -- for MR columns: item j, any state"""
            if ck == "MR":
                return t(i, si, j, 0) + t(i, si, j, 1) + t(i, si, j, 2)
            return B.Sum(Call, lambda j2: t(i, si, j2, 0))

        def share(i, j):
            if rk == "MR":
                member = col_all(vi(i), 0, j)
                eligible = col_all(vi(i), 0, j) + col_all(vi(i), 1, j)
            else:
                member = col_all(vi(i), 0, j)
                eligible = B.Sum(R, lambda i2: col_all(vi(i2), 0, j))
            return member / eligible

        ncols = Call if ck == "MR" else 1
        B.eq_tensor("baseline", obj.baseline, B.spec_tensor((R, ncols), share))

    def assumptions(self):
        return ["A-MRSUBVAR: an MR items dimension has no missing elements (MR x MR baseline takes all row items)"]


for _rk in ("CAT", "MR"):
    for _ck in ("CAT", "MR"):
        REGISTRY.append(type("C_Baseline_%s%s" % (_rk, _ck), (_Baseline,), dict(rk=_rk, ck=_ck))())


# ---- C01: plane selectors of the numeric measures ---------------------------------------
_NUMERIC = {
    "means": ("Means", "_means"),
    "medians": ("Medians", "_medians"),
    "stddev": ("StdDev", "_stddev"),
    "sums": ("Sums", "_sums"),
}


class _PlaneSelect(Contract):
    """<measure>[i, j] is the value the response carries for the cell (row item i, column
    item j), on the 'selected' plane of every MR axis."""

    props = ("C01",)

    def __init__(self, attr, rmr, cmr):
        self.attr, self.rmr, self.cmr = attr, rmr, cmr
        stem = _NUMERIC[attr][0]
        pair = ("Mr" if rmr else "Cat") + "X" + ("Mr" if cmr else "Cat")
        self.cls = "_%sCube%s" % (pair, stem)
        self.name = "%s:%s.%s" % (MOD, self.cls, attr)

    def size_space(self, cfg):
        return {"R": [1, 2], "C": [1, 2]}

    def run(self, B, cfg):
        R, C = B.size("R"), B.size("C")
        shape = [R] + ([2] if self.rmr else []) + [C] + ([2] if self.cmr else [])
        M = B.tensor("M", tuple(shape), maybe_nan=True)
        obj = B.new("%s:%s" % (MOD, self.cls), B.stub("dimensions"), M)

        def cell(i, j):
            idx = [i] + ([0] if self.rmr else []) + [j] + ([0] if self.cmr else [])
            return B.rd(M, *idx)

        B.eq_tensor(self.attr, getattr(obj, self.attr), B.spec_tensor((R, C), cell))


for _a in _NUMERIC:
    for _r in (False, True):
        for _c in (False, True):
            REGISTRY.append(_PlaneSelect(_a, _r, _c))


# ---- C06 / C01 / C16: factories and the slice-index expression --------------------------
def _kind(DT, t):
    return "MR" if t == DT.MR_SUBVAR else ("ARR" if t in DT.ARRAY_TYPES else "CAT")


APPARENT_TYPES = (
    "BINNED_NUMERIC", "CAT", "CAT_DATE", "CA_CAT", "CA_SUBVAR", "DATETIME", "LOGICAL",
    "MR_SUBVAR", "NUM_ARRAY", "TEXT",
)


class CountsFactory(Contract):
    """_BaseCubeCounts.factory: class chosen by the (rows, columns) type pair -- exhaustive
    over all apparent dimension types -- and the slice handed to it is the table of the
    k-th valid element of the table dimension (MR table: its 'selected' plane)."""

    name = MOD + ":_BaseCubeCounts.factory"
    # the class chosen here decides every count, base, margin and pruning mask of the slice
    props = ("C01", "C02", "C03", "C06", "C09", "C10", "C16")

    def configs(self):
        return [dict(nd=2), dict(nd=3, tmr=False), dict(nd=3, tmr=True)]

    def size_space(self, cfg):
        return {"T": [1, 2, 3], "k": [0, 1, 2]} if cfg["nd"] == 3 else {}

    def run(self, B, cfg):
        DT = B.enum("enums:DIMENSION_TYPE")
        base = B.cls(MOD + ":_BaseCubeCounts")
        dims = (B.stub("rows_dimension"), B.stub("columns_dimension"))
        A, Bn = 2, 3
        if cfg["nd"] == 3:
            T = B.size("T", lo=1)
            k = B.integer("k", 0, T)
            lead = [T] + ([2] if cfg["tmr"] else [])
        else:
            lead, k = [], 0
        counts = B.tensor("counts", tuple(lead + [A, Bn]), nonneg=True)
        for rt in APPARENT_TYPES:
            for ct in APPARENT_TYPES:
                rtype, ctype = getattr(DT, rt), getattr(DT, ct)
                ttype = (DT.MR_SUBVAR if cfg.get("tmr") else DT.CAT,) if cfg["nd"] == 3 else ()
                cube = B.stub("cube", ndim=cfg["nd"], dimension_types=ttype + (rtype, ctype))
                flag = rt < ct  # arbitrary but fixed diff_nans argument
                obj = base.factory(counts, flag, cube, dims, k)
                want = spec.CLASS_OF_PAIR[(_kind(DT, rtype), _kind(DT, ctype))]
                tag = "%s_x_%s" % (rt, ct)
                B.check("class:" + tag, type(obj).__name__ == want)
                B.check("wiring:" + tag, obj._dimensions is dims and obj._diff_nans is flag)
                if rt == "CAT" and ct in ("CAT", "MR_SUBVAR"):
                    # the slice itself does not depend on the rows/columns types
                    def cell(a, b):
                        if cfg["nd"] == 2:
                            return B.rd(counts, a, b)
                        if cfg["tmr"]:
                            return B.rd(counts, k, 0, a, b)
                        return B.rd(counts, k, a, b)

                    B.eq_tensor("slice:" + tag, obj._counts, B.spec_tensor((A, Bn), cell))


REGISTRY.append(CountsFactory())


class NumericFactory(Contract):
    """factories of the means / medians / stddev / sums cube measures"""

    props = ("C01", "C06")

    def __init__(self, attr):
        self.attr = attr
        stem = _NUMERIC[attr][0]
        self.base = "_BaseCube%s" % stem
        self.stem = stem
        self.name = "%s:%s.factory" % (MOD, self.base)

    def configs(self):
        return [dict(nd=2), dict(nd=3, tmr=False), dict(nd=3, tmr=True)]

    def size_space(self, cfg):
        return {"T": [1, 2, 3], "k": [0, 1, 2]} if cfg["nd"] == 3 else {}

    def run(self, B, cfg):
        DT = B.enum("enums:DIMENSION_TYPE")
        base = B.cls("%s:%s" % (MOD, self.base))
        dims = (B.stub("rows_dimension"), B.stub("columns_dimension"))
        if cfg["nd"] == 3:
            T = B.size("T", lo=1)
            k = B.integer("k", 0, T)
            lead = [T] + ([2] if cfg["tmr"] else [])
        else:
            lead, k = [], 0
        for rt in APPARENT_TYPES:
            for ct in APPARENT_TYPES:
                rtype, ctype = getattr(DT, rt), getattr(DT, ct)
                rmr, cmr = rtype == DT.MR_SUBVAR, ctype == DT.MR_SUBVAR
                shape = lead + [2] + ([2] if rmr else []) + [3] + ([2] if cmr else [])
                M = B.tensor("M_%s_%s" % (rt, ct), tuple(shape), maybe_nan=True)
                ttype = (DT.MR_SUBVAR if cfg.get("tmr") else DT.CAT,) if cfg["nd"] == 3 else ()
                attrs = {a: None for a in _NUMERIC}
                attrs[self.attr] = M
                cube = B.stub("cube", ndim=cfg["nd"], dimension_types=ttype + (rtype, ctype), **attrs)
                obj = base.factory(cube, dims, k)
                pair = ("Mr" if rmr else "Cat") + "X" + ("Mr" if cmr else "Cat")
                tag = "%s_x_%s" % (rt, ct)
                B.check("class:" + tag, type(obj).__name__ == "_%sCube%s" % (pair, self.stem))
                B.check("wiring:" + tag, obj._dimensions is dims)
                if rt in ("CAT", "MR_SUBVAR") and ct in ("CAT", "MR_SUBVAR"):
                    # public value: cell (i, j) of the table of the k-th valid table element
                    def cell(i, j, rmr=rmr, cmr=cmr, M=M):
                        idx = ([k] + ([0] if cfg["tmr"] else [])) if cfg["nd"] == 3 else []
                        idx = idx + [i] + ([0] if rmr else []) + [j] + ([0] if cmr else [])
                        return B.rd(M, *idx)

                    B.eq_tensor("value:" + tag, getattr(obj, self.attr), B.spec_tensor((2, 3), cell))
        # absent measure: ValueError (the sort-by-value fallback of C08 relies on it)
        attrs = {a: None for a in _NUMERIC}
        cube = B.stub("cube", ndim=2, dimension_types=(DT.CAT, DT.CAT), **attrs)
        try:
            base.factory(cube, dims, 0)
            B.check("absent-measure-raises-ValueError", False)
        except ValueError:
            B.check("absent-measure-raises-ValueError", True)


for _a in _NUMERIC:
    REGISTRY.append(NumericFactory(_a))


class UnconditionalFactory(Contract):
    """C16 / C06: the unconditional counts handed to a 2-D slice of a 3-D response must be
    those of the table of the k-th *valid* element of the table dimension.  The tensor with
    missings still carries the missing table elements, so the table is at payload position
    v_t[k]."""

    name = MOD + ":_BaseUnconditionalCubeCounts.factory"
    props = ("C16", "C06")

    def configs(self):
        return [dict(nd=2), dict(nd=3, tmr=False), dict(nd=3, tmr=True)]

    def size_space(self, cfg):
        return {"Tall": [1, 2, 3], "T": [1, 2], "k": [0, 1]} if cfg["nd"] == 3 else {}

    def run(self, B, cfg):
        DT = B.enum("enums:DIMENSION_TYPE")
        base = B.cls(MOD + ":_BaseUnconditionalCubeCounts")
        dims = (B.stub("rows_dimension"), B.stub("columns_dimension"))
        if cfg["nd"] == 3:
            Tall = B.size("Tall", lo=1)
            T = B.size("T", lo=1)
            v = B.idx_list("v_table", T, Tall)
            k = B.integer("k", 0, T)
            lead = [Tall] + ([3] if cfg["tmr"] else [])
            tdim = B.stub("table_dimension", valid_elements=B.stub("valid_elements", element_idxs=v))
        else:
            lead, k, tdim = [], 0, None
        names = {
            (False, False): "_CatXCatUnconditionalCubeCounts",
            (False, True): "_CatXMrUnconditionalCubeCounts",
            (True, False): "_MrXCatUnconditionalCubeCounts",
            (True, True): "_MrXMrUnconditionalCubeCounts",
        }
        for rt in APPARENT_TYPES:
            for ct in APPARENT_TYPES:
                rtype, ctype = getattr(DT, rt), getattr(DT, ct)
                rmr, cmr = rtype == DT.MR_SUBVAR, ctype == DT.MR_SUBVAR
                tag = "%s_x_%s" % (rt, ct)
                full = rt in ("CAT", "MR_SUBVAR") and ct in ("CAT", "MR_SUBVAR")
                shape = lead + [2] + ([3] if rmr else []) + [3] + ([3] if cmr else [])
                cwm = B.tensor("cwm_%s_%s" % (rt, ct), tuple(shape), nonneg=True) if full else B.tensor("cwm", tuple(lead + [2, 3]), nonneg=True)
                ttype = (DT.MR_SUBVAR if cfg.get("tmr") else DT.CAT,) if cfg["nd"] == 3 else ()
                cube = B.stub(
                    "cube", ndim=cfg["nd"], dimension_types=ttype + (rtype, ctype),
                    counts_with_missings=cwm, dimensions=(tdim,) + dims if tdim is not None else dims,
                )
                obj = base.factory(cube, dims, k)
                B.check("class:" + tag, type(obj).__name__ == names[(rmr, cmr)])
                B.check("wiring:" + tag, obj._dimensions is dims)
                if full:
                    rest = tuple(shape[len(lead):])

                    def cell(*idx, cwm=cwm):
                        if cfg["nd"] == 2:
                            return B.rd(cwm, *idx)
                        pos = B.idx_at(v, k)
                        if cfg["tmr"]:
                            return B.rd(cwm, pos, 0, *idx)
                        return B.rd(cwm, pos, *idx)

                    B.eq_tensor("slice:" + tag, obj._counts_with_missings, B.spec_tensor(rest, cell))


REGISTRY.append(UnconditionalFactory())


class CubeMeasuresWiring(Contract):
    """CubeMeasures: the weighted / unweighted counts handed to the count classes (valid
    counts take precedence and switch on NaN differences), squared counts optional."""

    name = MOD + ":CubeMeasures.<wiring>"
    props = ("C01", "C02", "C03", "C04", "C09", "C10", "C11", "C12", "C13", "C16")

    def run(self, B, cfg):
        DT = B.enum("enums:DIMENSION_TYPE")
        dims = (B.stub("rows"), B.stub("cols"))
        for valid in (False, True):
            uc, wc, uv, wv, sq = (B.tensor(n, (2, 3), nonneg=True) for n in ("uc", "wc", "uv", "wv", "sq"))
            cube = B.stub(
                "cube", ndim=2, dimension_types=(DT.CAT, DT.CAT), unweighted_counts=uc, counts=wc,
                unweighted_valid_counts=uv if valid else None, weighted_valid_counts=wv if valid else None,
                weighted_squared_counts=sq,
            )
            cm = B.new(MOD + ":CubeMeasures", cube, dims, 0)
            tag = "valid" if valid else "plain"
            u, w, s = cm.unweighted_cube_counts, cm.weighted_cube_counts, cm.weighted_squared_cube_counts
            same = lambda t: B.spec_tensor((2, 3), lambda i, j: B.rd(t, i, j))
            B.eq_tensor("unweighted-counts:" + tag, u._counts, same(uv if valid else uc))
            B.eq_tensor("weighted-counts:" + tag, w._counts, same(wv if valid else wc))
            B.eq_tensor("squared-counts:" + tag, s._counts, same(sq))
            B.check("unweighted:" + tag, u.diff_nans is valid and u._dimensions is dims)
            B.check("weighted:" + tag, w.diff_nans is valid and w._dimensions is dims)
            B.check("squared:" + tag, s.diff_nans is False)
        cube = B.stub("cube", ndim=2, dimension_types=(DT.CAT, DT.CAT), weighted_squared_counts=None)
        cm = B.new(MOD + ":CubeMeasures", cube, dims, 0)
        B.check("squared-absent", cm.weighted_squared_cube_counts is None)


REGISTRY.append(CubeMeasuresWiring())
