#!/bin/sh
# re-run seeded changes against the check of the property each breaks (scratch copies of
# /repo under /dev/shm via PVC_REPO_SRC; /repo itself is not touched)
#   tools/run_seeds.sh            every seed, RESULTS.txt rewritten
#   tools/run_seeds.sh V1 W3 ...  only those, their sections appended to RESULTS.txt
out=/verif/seeded/RESULTS.txt
if [ $# -eq 0 ]; then
  : > $out
  set -- $(cd /verif/seeded && ls -d C[0-9]* S[0-9]* T[0-9]* U[0-9]* V[0-9]* W[0-9]* X[0-9]* 2>/dev/null)
fi
for id in "$@"; do
  d=/verif/seeded/$id
  prop=$(/venv/bin/python -c "import json,sys; print(json.load(open('$d/meta.json'))['property'])")
  echo "##### seed $id (property $prop)" >> $out
  SEED_TIMEOUT=1500 /verif/tools/try_seed.sh $d $prop 2>&1 | grep -v "^  obligation" | tail -9 | cut -c1-400 >> $out
done
