"""Symbolic scalar values, verification context, path explorer.

Raw values (used inside closures):
  raw int  : python int            | z3.ArithRef of IntSort
  raw real : python int/float/Fraction | z3.ArithRef of RealSort
  raw bool : python bool           | z3.BoolRef
User-visible wrappers: SInt, SBool, SFloat.  A symbolic SBool consulted by Python's
`if`/`and`/`or`/`not` asks the current context's path scheduler (`Ctx.decide`).

Float model (DESIGN 3.7): SFloat = (u, v): `u` "undefined" flag (NaN, and -- conflated,
listed as assumption A-REAL -- +-Inf), `v` exact real value, meaningful when not u.
"""
import itertools
import math
from fractions import Fraction

import z3

# z3 5.1's Diophantine-equation pass of the LIA solver can run for many minutes inside one
# final check without honouring the timeout (seen on a bounded counterexample search): off
z3.set_param("lp.dio", False)

# ---------------------------------------------------------------------------------------
# exceptions


class OutOfReach(Exception):
    """The construct cannot be handled symbolically (function is out of tier-P reach)."""


class PathInfeasible(Exception):
    """Raised to abandon a path whose condition is unsatisfiable."""


class TooManyPaths(Exception):
    pass


# ---------------------------------------------------------------------------------------
# raw helpers

_INT = z3.IntSort()
_REAL = z3.RealSort()


def is_z3(x):
    return isinstance(x, z3.ExprRef)


def zi(x):
    """raw int -> z3 Int expr"""
    if isinstance(x, SInt):
        x = x.e
    if isinstance(x, bool):
        return z3.IntVal(int(x))
    if isinstance(x, int):
        return z3.IntVal(x)
    if is_z3(x):
        if x.sort() == _INT:
            return x
        if z3.is_bool(x):
            return z3.If(x, z3.IntVal(1), z3.IntVal(0))
    try:
        import numpy as _np

        if isinstance(x, _np.integer):
            return z3.IntVal(int(x))
    except ImportError:  # pragma: no cover
        pass
    raise OutOfReach("not an int: %r" % (x,))


def _real_const(x):
    if isinstance(x, bool):
        return z3.RealVal(int(x))
    if isinstance(x, int):
        return z3.RealVal(x)
    if isinstance(x, Fraction):
        return z3.RealVal(str(x))
    if isinstance(x, float):
        if math.isnan(x) or math.isinf(x):
            raise OutOfReach("nan/inf as raw real")
        if x == int(x) and abs(x) < 1e15:
            return z3.RealVal(int(x))
        return z3.RealVal(repr(x))
    return None


def zr(x):
    """raw real/int -> z3 Real expr"""
    if isinstance(x, (SInt,)):
        x = x.e
    c = _real_const(x)
    if c is not None:
        return c
    if is_z3(x):
        if x.sort() == _REAL:
            return x
        if x.sort() == _INT:
            if z3.is_int_value(x):
                return z3.RealVal(x.as_long())
            return z3.ToReal(x)
        if z3.is_bool(x):
            return z3.If(x, z3.RealVal(1), z3.RealVal(0))
    try:
        import numpy as _np

        if isinstance(x, (_np.integer, _np.floating)):
            return zr(x.item())
    except ImportError:  # pragma: no cover
        pass
    raise OutOfReach("not a real: %r" % (x,))


def zb(x):
    if isinstance(x, SBool):
        x = x.e
    if isinstance(x, bool):
        return z3.BoolVal(x)
    if is_z3(x) and z3.is_bool(x):
        return x
    try:
        import numpy as _np

        if isinstance(x, _np.bool_):
            return z3.BoolVal(bool(x))
    except ImportError:  # pragma: no cover
        pass
    raise OutOfReach("not a bool: %r" % (x,))


def b_not(a):
    if isinstance(a, bool):
        return not a
    if z3.is_true(a):
        return False
    if z3.is_false(a):
        return True
    return z3.Not(a)


def _bconst(a):
    if isinstance(a, bool):
        return a
    if is_z3(a):
        if z3.is_true(a):
            return True
        if z3.is_false(a):
            return False
    return None


def _complementary(lits):
    """some literal and its negation both occur"""
    pos, neg = set(), set()
    for a in lits:
        if is_z3(a):
            if z3.is_not(a):
                neg.add(a.arg(0).get_id())
            else:
                pos.add(a.get_id())
    return bool(pos & neg)


def b_and(*xs):
    out = []
    for a in xs:
        c = _bconst(a)
        if c is False:
            return False
        if c is True:
            continue
        if is_z3(a) and z3.is_and(a):
            out.extend(a.children())
        else:
            out.append(a)
    if not out:
        return True
    if len(out) == 1:
        return out[0]
    if _complementary(out):
        return False
    return z3.And(*out)


def b_or(*xs):
    out = []
    for a in xs:
        c = _bconst(a)
        if c is True:
            return True
        if c is False:
            continue
        if is_z3(a) and z3.is_or(a):
            out.extend(a.children())
        else:
            out.append(a)
    if not out:
        return False
    if len(out) == 1:
        return out[0]
    if _complementary(out):
        return True
    return z3.Or(*out)


def b_implies(a, b):
    return b_or(b_not(a), b)


def b_ite(c, a, b):
    """ite over raw bools"""
    cc = _bconst(c)
    if cc is True:
        return a
    if cc is False:
        return b
    ca, cb = _bconst(a), _bconst(b)
    if ca is not None and cb is not None:
        if ca == cb:
            return ca
        return c if ca else b_not(c)
    if is_z3(a) and a.eq(c):  # If(c, c, b) == c or b
        return b_or(c, b)
    if is_z3(b) and b.eq(c):  # If(c, a, c) == c and a
        return b_and(c, a)
    if ca is True:
        return b_or(c, b)
    if ca is False:
        return b_and(b_not(c), b)
    if cb is True:
        return b_or(b_not(c), a)
    if cb is False:
        return b_and(c, a)
    return z3.If(c, zb(a), zb(b))


def r_ite(c, a, b):
    """ite over raw reals (or raw ints when both are ints)"""
    cc = _bconst(c)
    if cc is True:
        return a
    if cc is False:
        return b
    if is_int_raw(a) and is_int_raw(b):
        return z3.If(c, zi(a), zi(b))
    return z3.If(c, zr(a), zr(b))


def is_int_raw(x):
    if isinstance(x, bool):
        return False
    if isinstance(x, int):
        return True
    if isinstance(x, SInt):
        return True
    return is_z3(x) and x.sort() == _INT


def is_concrete_num(x):
    return isinstance(x, (int, float, Fraction)) and not isinstance(x, bool)


def _num_op(op, a, b):
    """arithmetic on raw numbers, folding python constants"""
    if is_concrete_num(a) and is_concrete_num(b):
        if isinstance(a, float) or isinstance(b, float):
            a = Fraction(repr(a)) if isinstance(a, float) else a
            b = Fraction(repr(b)) if isinstance(b, float) else b
        if op == "+":
            return a + b
        if op == "-":
            return a - b
        if op == "*":
            return a * b
        if op == "/":
            return Fraction(a) / Fraction(b)
    both_int = is_int_raw(a) and is_int_raw(b) and op != "/"
    if both_int:
        x, y = zi(a), zi(b)
    else:
        x, y = zr(a), zr(b)
    if op == "+":
        if is_concrete_num(a) and a == 0:
            return y
        if is_concrete_num(b) and b == 0:
            return x
        return x + y
    if op == "-":
        if is_concrete_num(b) and b == 0:
            return x
        return x - y
    if op == "*":
        if is_concrete_num(a):
            if a == 0:
                return 0
            if a == 1:
                return y
        if is_concrete_num(b):
            if b == 0:
                return 0
            if b == 1:
                return x
        return x * y
    if op == "/":
        if is_concrete_num(b) and b == 1:
            return x
        return x / y
    raise AssertionError(op)


def r_cmp(op, a, b):
    if is_concrete_num(a) and is_concrete_num(b):
        fa = Fraction(repr(a)) if isinstance(a, float) else a
        fb = Fraction(repr(b)) if isinstance(b, float) else b
        return {
            "<": fa < fb,
            "<=": fa <= fb,
            ">": fa > fb,
            ">=": fa >= fb,
            "==": fa == fb,
            "!=": fa != fb,
        }[op]
    if is_int_raw(a) and is_int_raw(b):
        x, y = zi(a), zi(b)
    else:
        x, y = zr(a), zr(b)
    if op == "==" and x.eq(y):
        return True
    if op == "!=" and x.eq(y):
        return False
    r = {
        "<": lambda: x < y,
        "<=": lambda: x <= y,
        ">": lambda: x > y,
        ">=": lambda: x >= y,
        "==": lambda: x == y,
        "!=": lambda: x != y,
    }[op]()
    return r


# ---------------------------------------------------------------------------------------
# wrappers


def raw(x):
    """unwrap SInt/SBool to raw; leave others"""
    if isinstance(x, (SInt, SBool)):
        return x.e
    return x


class SBool:
    __slots__ = ("e",)

    def __init__(self, e):
        if isinstance(e, SBool):
            e = e.e
        c = _bconst(e)
        self.e = c if c is not None else e

    def __bool__(self):
        if isinstance(self.e, bool):
            return self.e
        return ctx().decide(self.e)

    def __and__(self, o):
        return SBool(b_and(self.e, raw(lift_bool(o))))

    __rand__ = __and__

    def __or__(self, o):
        return SBool(b_or(self.e, raw(lift_bool(o))))

    __ror__ = __or__

    def __invert__(self):
        return SBool(b_not(self.e))

    def __eq__(self, o):
        if isinstance(o, (bool, SBool)):
            o = raw(o)
            return SBool(b_or(b_and(self.e, o), b_and(b_not(self.e), b_not(o))))
        return NotImplemented

    def __ne__(self, o):
        r = self.__eq__(o)
        return r if r is NotImplemented else ~r

    __hash__ = None

    def __repr__(self):
        return "SBool(%s)" % (self.e,)


def lift_bool(x):
    if isinstance(x, SBool):
        return x
    if isinstance(x, bool):
        return SBool(x)
    if is_z3(x) and z3.is_bool(x):
        return SBool(x)
    try:
        import numpy as _np

        if isinstance(x, _np.bool_):
            return SBool(bool(x))
    except ImportError:  # pragma: no cover
        pass
    raise OutOfReach("not a bool: %r" % (x,))


def sbool(e):
    """Return python bool if constant else SBool"""
    c = _bconst(e)
    return c if c is not None else SBool(e)


class SInt:
    __slots__ = ("e",)

    def __init__(self, e):
        if isinstance(e, SInt):
            e = e.e
        if is_z3(e) and z3.is_int_value(e):
            e = e.as_long()
        self.e = e

    # -- conversions
    def __index__(self):
        if isinstance(self.e, int):
            return self.e
        s = z3.simplify(self.e)
        if z3.is_int_value(s):
            return s.as_long()
        raise OutOfReach("symbolic int used where a concrete int is required: %s" % s)

    __int__ = __index__

    def __float__(self):
        return float(self.__index__())

    def __hash__(self):
        if isinstance(self.e, int):
            return hash(self.e)
        raise OutOfReach("hash of symbolic int")

    def __bool__(self):
        return bool(self != 0)

    def __repr__(self):
        return "SInt(%s)" % (self.e,)

    # -- arithmetic
    def _bin(self, o, op, swap=False):
        if isinstance(o, SFloat):
            return NotImplemented
        if isinstance(o, float):
            a, b = SFloat(False, self.e), SFloat.lift(o)
            if swap:
                a, b = b, a
            return a._bin(b, op)
        if not is_int_raw(o):
            return NotImplemented
        a, b = self.e, raw(o)
        if swap:
            a, b = b, a
        if op == "/":
            return SFloat(False, a)._bin(SFloat(False, b), "/")
        return sint(_num_op(op, a, b))

    def __add__(self, o):
        return self._bin(o, "+")

    def __radd__(self, o):
        return self._bin(o, "+", True)

    def __sub__(self, o):
        return self._bin(o, "-")

    def __rsub__(self, o):
        return self._bin(o, "-", True)

    def __mul__(self, o):
        return self._bin(o, "*")

    def __rmul__(self, o):
        return self._bin(o, "*", True)

    def __truediv__(self, o):
        return self._bin(o, "/")

    def __rtruediv__(self, o):
        return self._bin(o, "/", True)

    def __neg__(self):
        return sint(_num_op("-", 0, self.e))

    def __pos__(self):
        return self

    def __floordiv__(self, o):
        if is_int_raw(o):
            o = raw(o)
            if isinstance(o, int) and o > 0:
                return sint(zi(self.e) / z3.IntVal(o))  # z3 int div == floor for o>0
        raise OutOfReach("floordiv")

    def __mod__(self, o):
        if is_int_raw(o):
            o = raw(o)
            if isinstance(o, int) and o > 0:
                return sint(zi(self.e) % z3.IntVal(o))
        raise OutOfReach("mod")

    def _cmp(self, o, op):
        if isinstance(o, SFloat):
            return SFloat(False, self.e)._cmp(o, op)
        if isinstance(o, float):
            return SFloat(False, self.e)._cmp(SFloat.lift(o), op)
        if not is_int_raw(o):
            return NotImplemented
        return sbool(r_cmp(op, self.e, raw(o)))

    def __lt__(self, o):
        return self._cmp(o, "<")

    def __le__(self, o):
        return self._cmp(o, "<=")

    def __gt__(self, o):
        return self._cmp(o, ">")

    def __ge__(self, o):
        return self._cmp(o, ">=")

    def __eq__(self, o):
        r = self._cmp(o, "==")
        return False if r is NotImplemented else r

    def __ne__(self, o):
        r = self._cmp(o, "!=")
        return True if r is NotImplemented else r


def sint(e):
    """python int if concrete else SInt"""
    if isinstance(e, SInt):
        e = e.e
    if isinstance(e, bool):
        return int(e)
    if isinstance(e, int):
        return e
    if is_z3(e) and z3.is_int_value(e):
        return e.as_long()
    return SInt(e)


class SFloat:
    """(u, v): u raw bool 'undefined (NaN/Inf)', v raw real."""

    __slots__ = ("u", "v")

    def __init__(self, u, v):
        c = _bconst(u)
        self.u = c if c is not None else u
        self.v = raw(v)

    @staticmethod
    def lift(x):
        if isinstance(x, SFloat):
            return x
        if isinstance(x, SInt):
            return SFloat(False, x.e)
        if isinstance(x, SBool):
            return SFloat(False, zr(x.e))
        if isinstance(x, bool):
            return SFloat(False, int(x))
        if isinstance(x, (int, Fraction)):
            return SFloat(False, x)
        if isinstance(x, float):
            if math.isnan(x) or math.isinf(x):
                return SFloat(True, 0)
            return SFloat(False, x)
        if is_z3(x):
            if z3.is_bool(x):
                return SFloat(False, zr(x))
            return SFloat(False, x)
        try:
            import numpy as _np

            if isinstance(x, (_np.floating, _np.integer, _np.bool_)):
                return SFloat.lift(x.item())
        except ImportError:  # pragma: no cover
            pass
        raise OutOfReach("cannot lift %r to SFloat" % (x,))

    def __repr__(self):
        return "SFloat(u=%s, v=%s)" % (self.u, self.v)

    def __hash__(self):
        raise OutOfReach("hash of symbolic float")

    def __bool__(self):
        return bool(self != 0)

    def __float__(self):
        if self.u is True:
            return float("nan")
        if self.u is False and is_concrete_num(self.v):
            return float(self.v)
        raise OutOfReach("float() of symbolic float")

    def _bin(self, o, op):
        try:
            o = SFloat.lift(o)
        except OutOfReach:
            return NotImplemented
        u = b_or(self.u, o.u)
        if op == "/":
            u = b_or(u, r_cmp("==", o.v, 0))
        if u is True:
            return SFloat(True, 0)
        return SFloat(u, _num_op(op, self.v, o.v))

    def __add__(self, o):
        return self._bin(o, "+")

    def __radd__(self, o):
        return SFloat.lift(o)._bin(self, "+")

    def __sub__(self, o):
        return self._bin(o, "-")

    def __rsub__(self, o):
        return SFloat.lift(o)._bin(self, "-")

    def __mul__(self, o):
        return self._bin(o, "*")

    def __rmul__(self, o):
        return SFloat.lift(o)._bin(self, "*")

    def __truediv__(self, o):
        return self._bin(o, "/")

    def __rtruediv__(self, o):
        return SFloat.lift(o)._bin(self, "/")

    def __neg__(self):
        return SFloat(self.u, _num_op("-", 0, self.v))

    def __pos__(self):
        return self

    def __abs__(self):
        if is_concrete_num(self.v):
            return SFloat(self.u, abs(self.v))
        v = zr(self.v)
        return SFloat(self.u, z3.If(v >= 0, v, -v))

    def __pow__(self, p):
        p = raw(p)
        if isinstance(p, float) and p == int(p):
            p = int(p)
        if isinstance(p, int) and 0 <= p <= 4:
            r = SFloat(self.u, 1)
            for _ in range(p):
                r = r * SFloat(False, self.v)
            return SFloat(self.u, r.v)
        raise OutOfReach("pow with exponent %r" % (p,))

    def _cmp(self, o, op):
        try:
            o = SFloat.lift(o)
        except OutOfReach:
            return NotImplemented
        defined = b_and(b_not(self.u), b_not(o.u))
        c = r_cmp(op, self.v, o.v)
        if op == "!=":
            return sbool(b_or(b_not(defined), c))
        return sbool(b_and(defined, c))

    def __lt__(self, o):
        return self._cmp(o, "<")

    def __le__(self, o):
        return self._cmp(o, "<=")

    def __gt__(self, o):
        return self._cmp(o, ">")

    def __ge__(self, o):
        return self._cmp(o, ">=")

    def __eq__(self, o):
        r = self._cmp(o, "==")
        return False if r is NotImplemented else r

    def __ne__(self, o):
        r = self._cmp(o, "!=")
        return True if r is NotImplemented else r

    # convenience used by contracts
    def isnan(self):
        return sbool(self.u)


class SPyNum(SFloat):
    """A symbolic *Python* number (JSON payload value): like SFloat, but true division by
    zero raises ZeroDivisionError as CPython does (numpy scalars do not)."""

    __slots__ = ()

    def __truediv__(self, o):
        try:
            o = SFloat.lift(o)
        except OutOfReach:
            return NotImplemented  # -> TypeError, as for float / None
        if bool(o == 0):
            raise ZeroDivisionError("division by zero")
        r = SFloat._bin(self, o, "/")
        return SPyNum(r.u, r.v)

    def __rtruediv__(self, o):
        try:
            o = SFloat.lift(o)
        except OutOfReach:
            return NotImplemented
        if bool(self == 0):
            raise ZeroDivisionError("division by zero")
        r = SFloat._bin(o, self, "/")
        return SPyNum(r.u, r.v)

    def _bin(self, o, op):
        if op == "/":
            return self.__truediv__(o)
        r = SFloat._bin(self, o, op)
        return r if r is NotImplemented else SPyNum(r.u, r.v)

    def __radd__(self, o):
        try:
            r = SFloat.lift(o)._bin(self, "+")
        except OutOfReach:
            return NotImplemented
        return SPyNum(r.u, r.v)

    def __bool__(self):
        return bool(self != 0)


def f_ite(c, a, b):
    """ite over SFloat"""
    a, b = SFloat.lift(a), SFloat.lift(b)
    c = raw(c)
    return SFloat(b_ite(c, a.u, b.u), r_ite(c, a.v, b.v))


def lift_scalar(x):
    """python/numpy scalar -> python scalar | SInt | SBool | SFloat (unchanged if symbolic)"""
    if isinstance(x, (SInt, SBool, SFloat)):
        return x
    if isinstance(x, (bool, int)):
        return x
    if isinstance(x, float):
        return x
    try:
        import numpy as _np

        if isinstance(x, _np.generic):
            return x.item()
    except ImportError:  # pragma: no cover
        pass
    if is_z3(x):
        if z3.is_bool(x):
            return sbool(x)
        if x.sort() == _INT:
            return sint(x)
        return SFloat(False, x)
    return x


# ---------------------------------------------------------------------------------------
# context + explorer

_current = []
INDEX_FNS = {}  # name -> (z3 function, upper): strictly increasing index lists into [0, upper)


def ctx():
    if not _current:
        raise RuntimeError("no active verification context")
    return _current[-1]


def have_ctx():
    return bool(_current)


class Obligation:
    __slots__ = ("name", "hyps", "goal", "kind", "info")

    def __init__(self, name, hyps, goal, kind="post", info=None):
        self.name = name
        self.hyps = list(hyps)
        self.goal = goal
        self.kind = kind
        self.info = info or {}


class _Empty:
    def __repr__(self):
        return "EMPTY"


EMPTY = _Empty()  # result of a local merge with no feasible path (empty range)


class _Frame:
    """Local decision frame used by Ctx.merge: decisions on conditions mentioning `var`."""

    def __init__(self, var, given):
        self.var = var
        self.given = dict(given)
        self.decided = {}
        self.conds = []
        self.alternatives = []


class Ctx:
    """One execution path of one function under verification."""

    FEAS_TIMEOUT_MS = 3000

    def __init__(self, given=None, sizes=None):
        self.given = dict(given or {})  # decision key -> bool (from the scheduler)
        self.decided = {}  # decisions taken on this path, in order
        self.alternatives = []
        self.assumptions = []  # z3 bools: type invariants, requires, callee ensures
        self.pathcond = []
        self.obligations = []
        self.binders = []  # stack of (var, cond) active while building Sigma bodies
        self.frames = []  # stack of _Frame (local merges)
        self.fn_axioms = []  # axioms for uninterpreted functions (sqrt ...) instances
        self._uid = itertools.count()
        self._solver = None
        self._n_asserted = 0
        self._n_path = 0
        self.sizes = sizes or {}  # concrete sizes in bounded / concretised mode
        self.notes = []
        self.reads = []  # (object label, attribute) log
        self.stats = {"feas_checks": 0}
        self.nonneg_ids = set()

    def __enter__(self):
        _current.append(self)
        return self

    def __exit__(self, *a):
        _current.pop()

    # -- naming
    def fresh(self, base):
        return "%s!%d" % (base, next(self._uid))

    def fresh_int(self, base="k"):
        return z3.Int(self.fresh(base))

    # -- hypotheses
    def assume(self, *conds):
        for c in conds:
            c = raw(c)
            cc = _bconst(c)
            if cc is True:
                continue
            if cc is False:
                raise PathInfeasible("assumed False")
            self.assumptions.append(c)

    def local_conds(self):
        out = [c for _, c in self.binders if _bconst(c) is not True]
        for f in self.frames:
            out.extend(f.conds)
        return out

    def hyps(self):
        return self.assumptions + self.pathcond + self.local_conds()

    # -- obligations
    def oblige(self, name, goal, kind="post", info=None):
        goal = raw(goal)
        self.obligations.append(Obligation(name, self.hyps(), zb(goal), kind, info))

    def safety(self, name, goal):
        g = raw(goal)
        if _bconst(g) is True:
            return
        self.obligations.append(Obligation("safety:" + name, self.hyps(), zb(g), "safety"))

    # -- path scheduling
    def _solver_sync(self):
        if self._solver is None:
            self._solver = z3.Solver()
            self._solver.set("timeout", self.FEAS_TIMEOUT_MS)
        hy = self.assumptions
        while self._n_asserted < len(hy):
            h = hy[self._n_asserted]
            # quantified hypotheses are left out of feasibility checks (weaker hypotheses
            # => superset of paths; an infeasible extra path only yields vacuous obligations)
            if not z3.is_quantifier(h):
                self._solver.add(h)
            self._n_asserted += 1
        while self._n_path < len(self.pathcond):
            self._solver.add(self.pathcond[self._n_path])
            self._n_path += 1

    def feasible(self, cond):
        self._solver_sync()
        self.stats["feas_checks"] += 1
        r = self._solver.check(cond, *self.local_conds())
        return r != z3.unsat

    def _choose(self, cond, key, given, decided, alternatives, base):
        """shared by global and local decisions"""
        if key in decided:
            return decided[key], False
        if key in given:
            return given[key], True
        can_t = self.feasible(cond)
        can_f = self.feasible(z3.Not(cond))
        if not can_t and not can_f:
            raise PathInfeasible()
        if can_t and can_f:
            alt = dict(base)
            alt.update(decided)
            alt[key] = False
            alternatives.append(alt)
            return True, True
        return can_t, True

    def decide(self, cond):
        c = _bconst(cond)
        if c is not None:
            return c
        for v, _ in self.binders:
            if _has_const(cond, v):
                raise OutOfReach("branch on a Sigma-bound variable: %s" % cond)
        key = cond.sexpr()
        if self.frames and any(_has_const(cond, f.var) for f in self.frames):
            # decided (and later merged) in the innermost active frame, where values are
            # still scalars / tensors
            f = self.frames[-1]
            val, new = self._choose(cond, key, f.given, f.decided, f.alternatives, f.given)
            if new:
                f.decided[key] = val
                f.conds.append(cond if val else z3.Not(cond))
            return val
        val, new = self._choose(cond, key, self.given, self.decided, self.alternatives, self.given)
        if new:
            self.decided[key] = val
            self.pathcond.append(cond if val else z3.Not(cond))
        return val

    def merge(self, thunk, var, init_conds=()):
        """Run thunk() under every feasible combination of decisions that mention `var`
        and merge the results into one ite-value (DESIGN 3.4, local path merging)."""
        from .symnp import merge_values

        results = []
        work = [{}]
        n = 0
        while work:
            given = work.pop()
            n += 1
            if n > 64:
                raise TooManyPaths("local merge explosion")
            frame = _Frame(var, given)
            frame.conds.extend(init_conds)
            n_init = len(frame.conds)
            self.frames.append(frame)
            try:
                val = thunk()
                results.append((b_and(*frame.conds[n_init:]), val))
            except PathInfeasible:
                pass
            finally:
                self.frames.pop()
            work.extend(frame.alternatives)
        if not results:
            return EMPTY
        return merge_values(results)

    def note(self, s):
        self.notes.append(s)


_has_cache = {}
_has_keep = []


def _has_const(e, v):
    """True if z3 const v occurs in e"""
    if not is_z3(e):
        return False
    key = (e.get_id(), v.get_id())
    r = _has_cache.get(key)
    if r is not None:
        return r
    stack = [e]
    seen = set()
    found = False
    vid = v.get_id()
    while stack:
        t = stack.pop()
        tid = t.get_id()
        if tid in seen:
            continue
        seen.add(tid)
        if tid == vid:
            found = True
            break
        if z3.is_app(t):
            stack.extend(t.children())
        elif z3.is_quantifier(t):
            stack.append(t.body())
    if len(_has_cache) > 200000:
        _has_cache.clear()
        _has_keep.clear()
    _has_cache[key] = found
    _has_keep.append((e, v))  # keep the terms alive: z3 recycles ast ids
    return found


class PathResult:
    def __init__(self, ctx, value=None, exc=None):
        self.ctx = ctx
        self.value = value
        self.exc = exc


def explore(fn, max_paths=400, sizes=None):
    """Run fn(ctx) once per feasible decision vector; return list of PathResult."""
    results = []
    work = [{}]
    n = 0
    while work:
        given = work.pop()
        n += 1
        if n > max_paths:
            raise TooManyPaths("more than %d paths" % max_paths)
        c = Ctx(given, sizes=sizes)
        try:
            with c:
                out = fn(c)
            results.append(PathResult(c, value=out))
        except PathInfeasible:
            pass
        work.extend(c.alternatives)
    return results
