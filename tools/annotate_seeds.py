#!/usr/bin/env python3
"""Write into every seeded/<id>/meta.json which obligations of which check reported the change
(parsed from seeded/RESULTS.txt, produced by tools/run_seeds.sh)."""
import json, os, re
ROOT = os.path.dirname(os.path.dirname(os.path.abspath(__file__)))
txt = open(os.path.join(ROOT, "seeded", "RESULTS.txt")).read()
for block in txt.split("##### seed ")[1:]:
    head, _, body = block.partition("\n")
    sid = head.split()[0]
    prop = re.search(r"property (C\d+)", head)
    viol = re.findall(r"VIOLATION property=(C\d+) replay=(\S+)", body)
    summ = [l for l in body.splitlines() if re.match(r"C\d\d: ", l)]
    exit_ = re.search(r"-> exit (\d+)", body)
    meta_p = os.path.join(ROOT, "seeded", sid, "meta.json")
    if not os.path.exists(meta_p):
        continue
    m = json.load(open(meta_p))
    m["checked_by"] = {
        "check": prop.group(1) if prop else m.get("property"),
        "exit": int(exit_.group(1)) if exit_ else None,
        "violations_reported": [os.path.basename(r)[:-5] for _, r in viol],
        "summary": summ[-1] if summ else None,
        "how": "tools/try_seed.sh: patch applied to a scratch copy of /repo under /dev/shm, check run with PVC_REPO_SRC pointing at it",
    }
    json.dump(m, open(meta_p, "w"), indent=2)
    print(sid, m["checked_by"]["exit"], len(viol))
