"""C19 (and the mutator part of C18): array items referenced by alias / sub-variable id /
element id -- bounded stand-in by enumeration on the real Dimension / _ElementIdShim."""
import copy
import random

from pvc.harness import EnumContract, REGISTRY


def mk_array_dim_dict(case):
    els = []
    for k in range(case["n"]):
        els.append(
            {
                "id": case["eids"][k],
                "value": {"id": case["sids"][k], "references": {"alias": case["aliases"][k], "name": "N%d" % k}},
                "missing": False,
            }
        )
    sub = {"MR": "variable", "CA": "variable", "NUM_ARRAY": "num_arr"}[case["dt"]]
    return {
        "type": {"class": "enum", "elements": els, "subtype": {"class": sub}},
        "references": {"alias": "arr", "name": "Arr", "subreferences": [{"alias": a} for a in case["aliases"]]},
    }


def spellings(case, k):
    e = case["eids"][k]
    sp = {"alias": case["aliases"][k], "subvar_id": case["sids"][k], "element_id": e, "element_id_str": str(e)}
    if k not in case["eids"]:
        # "a number that is no element id is taken as a zero-based position"
        sp["position"] = k
        sp["position_str"] = str(k)
    return sp


def gen_case(rnd):
    n = rnd.choice([1, 2, 3, 3])
    scheme = rnd.choice(["one", "zero", "high"])
    eids = {"one": [1, 2, 3], "zero": [0, 1, 2], "high": [5, 6, 7]}[scheme][:n]
    sids = rnd.choice([["0001", "0002", "0003"], ["a1", "b2", "c3"], ["0007", "0005", "0006"]])[:n]
    aliases = ["x_1", "x_2", "x_3"][:n]
    k = rnd.randrange(n)
    sp = rnd.choice(["alias", "subvar_id", "element_id", "element_id_str", "position", "position_str"])
    slot = rnd.choice(["hide", "rename", "explicit", "fixed_top", "fixed_bottom"])
    stale = rnd.choice([None, "zzz", 99, "99", "0099"])
    k2 = rnd.randrange(n)
    return dict(dt=rnd.choice(["MR", "CA", "NUM_ARRAY"]), n=n, eids=eids, sids=sids, aliases=aliases,
                k=k, sp=sp, slot=slot, stale=stale, k2=k2, stale_first=rnd.random() < 0.5)


def build(case, ref_k, ref_k2, with_stale):
    """transforms dict using reference `ref_k` for item k (and `ref_k2` for a second item)"""
    refs = [ref_k] if case["k2"] == case["k"] else [ref_k, ref_k2]
    if with_stale and case["stale"] is not None:
        refs = ([case["stale"]] + refs) if case["stale_first"] else (refs + [case["stale"]])
    slot = case["slot"]
    if slot == "hide":
        return {"elements": {str(r): {"hide": True} for r in refs}}
    if slot == "rename":
        return {"elements": {str(r): {"name": "renamed"} for r in refs}}
    if slot == "explicit":
        return {"order": {"type": "explicit", "element_ids": list(refs)}}
    if slot == "fixed_top":
        return {"order": {"type": "label", "fixed": {"top": list(refs)}}}
    return {"order": {"type": "label", "fixed": {"bottom": list(refs)}}}


def observe(dim):
    """what the consumers of the transforms see"""
    return dict(
        hidden=tuple(dim.hidden_idxs),
        labels=tuple(dim.element_labels),
        explicit=tuple(x for x in dim.order_spec.element_ids if x is not None),
        top=tuple(x for x in dim.order_spec.top_fixed_ids if x is not None),
        bottom=tuple(x for x in dim.order_spec.bottom_fixed_ids if x is not None),
        ids=tuple(dim.element_ids),
    )


class ArrayItemReferences(EnumContract):
    name = "dimension:_ElementIdShim / Dimension.translate_element_id (array item references)"
    props = ("C19", "C18")
    bound = "<= 3 items, element-id schemes {1..,0..,5..}, three sub-variable id schemes, every spelling x every transform slot, optional stale reference; seeded sample"
    clauses = ("translate", "same-output-for-every-spelling", "stale-ignored", "reuse-of-transforms-object", "no-mutation-of-meaning")

    def cases(self, cfg, seed, thorough):
        rnd = random.Random(3000 + seed)
        for _ in range(30000 if thorough else 4000):
            yield gen_case(rnd)

    def check_case(self, case, cfg):
        from cr.cube.dimension import Dimension
        from cr.cube.enums import DIMENSION_TYPE as DT

        dt = {"MR": DT.MR_SUBVAR, "CA": DT.CA_SUBVAR, "NUM_ARRAY": DT.NUM_ARRAY}[case["dt"]]
        bad = []
        k, k2 = case["k"], case["k2"]

        def unambiguous(kk, spelling, value):
            """the spelling must not also be a spelling of another item at an earlier or
            equal rule of the cascade (alias, element id, sub-variable id, int(element id), position)"""
            others = [j for j in range(case["n"]) if j != kk]
            for j in others:
                o = spellings(case, j)
                if value == o["alias"] or value == o["element_id"] or value == o["subvar_id"]:
                    return False
                try:
                    if int(value) == o["element_id"]:
                        return False
                except (TypeError, ValueError):
                    pass
            return True

        sp = spellings(case, k)
        if case["sp"] not in sp:
            case = dict(case, sp="alias")
        ref = sp[case["sp"]]
        ref2 = spellings(case, k2)["alias"]
        canon = spellings(case, k)["alias"]
        # 1. translate
        d0 = Dimension(mk_array_dim_dict(case), dt, {})
        if unambiguous(k, case["sp"], ref):
            if d0.translate_element_id(ref) != canon:
                bad.append("translate")
            if case["stale"] is not None and unambiguous(-1, "stale", case["stale"]):
                # a reference that matches nothing (and is no valid position) resolves to None
                st = case["stale"]
                is_pos = False
                try:
                    is_pos = 0 <= int(st) < case["n"]
                except (TypeError, ValueError):
                    pass
                if not is_pos and d0.translate_element_id(st) is not None:
                    bad.append("translate:stale")
            # 2. same output for every spelling
            tr_a = build(case, canon, ref2, False)
            tr_b = build(case, ref, ref2, False)
            try:
                oa = observe(Dimension(mk_array_dim_dict(case), dt, tr_a))
                ob = observe(Dimension(mk_array_dim_dict(case), dt, tr_b))
                if oa != ob:
                    bad.append("same-output-for-every-spelling")
            except Exception as e:
                bad.append("same-output-for-every-spelling:exception:%s" % type(e).__name__)
            # 3. stale references are ignored, never raise
            if case["stale"] is not None:
                st = case["stale"]
                is_pos = False
                try:
                    is_pos = 0 <= int(st) < case["n"]
                except (TypeError, ValueError):
                    pass
                if not is_pos and unambiguous(-1, "stale", st):
                    try:
                        oc = observe(Dimension(mk_array_dim_dict(case), dt, build(case, ref, ref2, True)))
                        if oc != oa:
                            bad.append("stale-ignored")
                    except Exception as e:
                        bad.append("stale-ignored:exception:%s" % type(e).__name__)
        # 4. the same transforms (and dimension dict) objects used for a second dimension
        tr = build(case, ref, ref2, True)
        dd = mk_array_dim_dict(case)
        pristine = observe(Dimension(copy.deepcopy(dd), dt, copy.deepcopy(tr)))
        try:
            first = observe(Dimension(dd, dt, tr))
            second = observe(Dimension(dd, dt, tr))
            if first != pristine or second != pristine:
                bad.append("reuse-of-transforms-object")
        except Exception as e:
            bad.append("reuse-of-transforms-object:exception:%s" % type(e).__name__)
        return bad


REGISTRY.append(ArrayItemReferences())
