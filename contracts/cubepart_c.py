"""Contracts for cr.cube.cubepart (_Slice / _Strand): assembly and public properties
(C05 core; C01/C02/C03/C11/C17 public wiring)."""
from pvc.harness import Contract, EnumContract, REGISTRY

MOD = "cubepart"


def new_slice(B, cube=None, slice_idx=0, transforms=None, population=None, mask_size=0):
    cube = cube if cube is not None else B.stub("cube")
    return B.new(MOD + ":_Slice", cube, slice_idx, transforms or {}, population, mask_size)


def wrap(B, o, n):
    """python negative-index wrap of a signed display index"""
    return B.ite(o < 0, o + n, o)


class AssembleMatrix(Contract):
    """C05: an assembled matrix is the 2x2 block matrix re-indexed by the row and column
    display orders (negative = inserted vector), nothing else."""

    name = MOD + ":_Slice._assemble_matrix"
    props = ("C05",)

    def size_space(self, cfg):
        return {"R": [1, 2], "C": [1, 2], "SR": [0, 1, 2], "SC": [0, 1], "NR": [0, 1, 2, 3], "NC": [0, 1, 2]}

    def run(self, B, cfg):
        R, C, SR, SC = B.size("R", lo=1), B.size("C", lo=1), B.size("SR"), B.size("SC")
        NR, NC = B.size("NR"), B.size("NC")
        b00 = B.tensor("b00", (R, C), maybe_nan=True)
        b01 = B.tensor("b01", (R, SC), maybe_nan=True)
        b10 = B.tensor("b10", (SR, C), maybe_nan=True)
        b11 = B.tensor("b11", (SR, SC), maybe_nan=True)
        ro = B.order_list("row_order", NR, -SR, R)
        co = B.order_list("col_order", NC, -SC, C)
        sl = new_slice(B)
        B.cut(sl, "_row_order_signed_indexes", ro)
        B.cut(sl, "_column_order_signed_indexes", co)
        out = sl._assemble_matrix([[b00, b01], [b10, b11]])

        def M(x, y):
            top = B.ite(y < C, B.rd(b00, x, y), B.rd(b01, x, y - C))
            bot = B.ite(y < C, B.rd(b10, x - R, y), B.rd(b11, x - R, y - C))
            return B.ite(x < R, top, bot)

        def cell(wr, wc):
            return M(wrap(B, B.idx_at(ro, wr), R + SR), wrap(B, B.idx_at(co, wc), C + SC))

        B.eq_tensor("assembled", out, B.spec_tensor((NR, NC), cell))


REGISTRY.append(AssembleMatrix())


class AssembleMarginal(Contract):
    name = MOD + ":_Slice._assemble_marginal"
    props = ("C05",)

    def configs(self):
        return [dict(o="rows"), dict(o="columns"), dict(o="undefined")]

    def size_space(self, cfg):
        return {"N": [1, 2], "S": [0, 1, 2], "NO": [0, 1, 2, 3]}

    def run(self, B, cfg):
        MO = B.enum("enums:MARGINAL_ORIENTATION")
        N, S, NO = B.size("N", lo=1), B.size("S"), B.size("NO")
        base = B.tensor("base", (N,), maybe_nan=True)
        subs = B.tensor("subs", (S,), maybe_nan=True)
        order = B.order_list("order", NO, -S, N)
        other = B.order_list("other_order", 1, 0, 1)
        sl = new_slice(B)
        is_rows = cfg["o"] != "columns"
        B.cut(sl, "_row_order_signed_indexes", order if is_rows else other)
        B.cut(sl, "_column_order_signed_indexes", other if is_rows else order)
        marg = B.stub(
            "marginal", is_defined=cfg["o"] != "undefined", blocks=[base, subs],
            orientation=MO.ROWS if is_rows else MO.COLUMNS,
        )
        out = sl._assemble_marginal(marg)
        if cfg["o"] == "undefined":
            B.check("undefined-is-None", out is None)
            return

        def cell(w):
            x = wrap(B, B.idx_at(order, w), N + S)
            return B.ite(x < N, B.rd(base, x), B.rd(subs, x - N))

        B.eq_tensor("assembled", out, B.spec_tensor((NO,), cell))


REGISTRY.append(AssembleMarginal())


# public matrix properties that are exactly one assembled measure
MATRIX_PROPS = {
    "column_index": "column_index",
    "column_proportions": "column_proportions",
    "column_share_sum": "column_share_sum",
    "column_proportion_variances": "column_proportion_variances",
    "column_std_err": "column_std_err",
    "column_unweighted_bases": "column_unweighted_bases",
    "column_weighted_bases": "column_weighted_bases",
    "counts": "weighted_counts",
    "means": "means",
    "medians": "medians",
    "population_std_err": "population_std_err",
    "pvals": "pvalues",
    "row_proportions": "row_proportions",
    "row_share_sum": "row_share_sum",
    "row_proportion_variances": "row_proportion_variances",
    "row_std_err": "row_std_err",
    "row_unweighted_bases": "row_unweighted_bases",
    "row_weighted_bases": "row_weighted_bases",
    "smoothed_column_index": "smoothed_column_index",
    "smoothed_column_proportions": "smoothed_column_proportions",
    "smoothed_means": "smoothed_means",
    "stddev": "stddev",
    "sums": "sums",
    "table_proportions": "table_proportions",
    "table_proportion_variances": "table_proportion_variances",
    "table_std_err": "table_std_err",
    "table_unweighted_bases": "table_unweighted_bases",
    "table_weighted_bases": "table_weighted_bases",
    "total_share_sum": "total_share_sum",
    "unweighted_counts": "unweighted_counts",
    "zscores": "zscores",
}

MARGINAL_PROPS = {
    "columns_scale_mean": "columns_scale_mean",
    "columns_scale_mean_stddev": "columns_scale_mean_stddev",
    "columns_scale_mean_stderr": "columns_scale_mean_stderr",
    "columns_scale_median": "columns_scale_median",
    "rows_scale_mean": "rows_scale_mean",
    "rows_scale_mean_stddev": "rows_scale_mean_stddev",
    "rows_scale_mean_stderr": "rows_scale_mean_stderr",
    "rows_scale_median": "rows_scale_median",
    "smoothed_columns_scale_mean": "smoothed_columns_scale_mean",
}


class SliceWiring(Contract):
    """every public array property hands exactly the blocks of the measure it is named after
    to the assembler (so all outputs share the same two order vectors: C05 alignment)"""

    name = MOD + ":_Slice.<public properties>"
    props = ("C05", "C01", "C02", "C03", "C04", "C10", "C11", "C12", "C14", "C15", "C16", "C17", "C20")

    def run(self, B, cfg):
        sent = {}

        class Rec:
            def __init__(self, tag):
                self.tag = tag

        def measure(name):
            s = Rec(name)
            sent[name] = s
            return B.stub(name, blocks=s)

        names = set(MATRIX_PROPS.values()) | set(MARGINAL_PROPS.values())
        som = B.stub("measures", **{n: (measure(n) if n in MATRIX_PROPS.values() else Rec(n)) for n in names})
        for n in MARGINAL_PROPS.values():
            sent[n] = getattr(som, n)
        for prop, mname in sorted(MATRIX_PROPS.items()):
            sl = new_slice(B)
            B.cut(sl, "_measures", som)
            sl.__dict__["_assemble_matrix"] = lambda blocks: ("matrix", blocks)
            got = getattr(sl, prop)
            B.check("matrix:" + prop, isinstance(got, tuple) and got[0] == "matrix" and got[1] is sent[mname])
        for prop, mname in sorted(MARGINAL_PROPS.items()):
            sl = new_slice(B)
            B.cut(sl, "_measures", som)
            sl.__dict__["_assemble_marginal"] = lambda marginal: ("marginal", marginal)
            got = getattr(sl, prop)
            B.check("marginal:" + prop, isinstance(got, tuple) and got[0] == "marginal" and got[1] is sent[mname])


REGISTRY.append(SliceWiring())


class SliceDerived(Contract):
    """elementwise derivations on assembled arrays: percentages = 100 x proportions,
    MoE = 1.959964 x std-error, std-dev = sqrt(variance), shape = counts.shape"""

    name = MOD + ":_Slice.<derived properties>"
    props = ("C03", "C11", "C05")

    def size_space(self, cfg):
        return {"N": [0, 1, 2], "M": [0, 1, 2]}

    def run(self, B, cfg):
        N, M = B.size("N"), B.size("M")
        X = B.tensor("X", (N, M), maybe_nan=True)
        V = B.tensor("V", (N, M), nonneg=True, maybe_nan=True)
        mod = B.cls(MOD + ":Z_975")
        B.check("Z_975==1.959964", B.feq(mod, 1.959964))
        for d in ("row", "column", "table"):
            sl = new_slice(B)
            B.cut(sl, d + "_proportions", X)
            B.eq_tensor(d + "_percentages", getattr(sl, d + "_percentages"), B.spec_tensor((N, M), lambda i, j: 100 * B.rd(X, i, j)))
            sl = new_slice(B)
            B.cut(sl, d + "_std_err", X)
            B.eq_tensor(d + "_proportions_moe", getattr(sl, d + "_proportions_moe"), B.spec_tensor((N, M), lambda i, j: 1.959964 * B.rd(X, i, j)))
            sl = new_slice(B)
            B.cut(sl, d + "_proportion_variances", V)
            B.eq_tensor(d + "_std_dev", getattr(sl, d + "_std_dev"), B.spec_tensor((N, M), lambda i, j: B.sqrt(B.rd(V, i, j))))
        sl = new_slice(B)
        B.cut(sl, "smoothed_column_proportions", X)
        B.eq_tensor("smoothed_column_percentages", sl.smoothed_column_percentages, B.spec_tensor((N, M), lambda i, j: 100 * B.rd(X, i, j)))
        sl = new_slice(B)
        B.cut(sl, "counts", X)
        sh = sl.shape
        B.check("shape==counts.shape", B.band(sh[0] == N, sh[1] == M))


REGISTRY.append(SliceDerived())


class SliceLabelsCodes(Contract):
    """C05: labels, codes, aliases and fills are the concatenation (elements + subtotals)
    indexed by the *same* order vector as the matrices, so position i of every row-wise
    output refers to the same element.  (Strings are modelled as opaque integer tokens.)"""

    name = MOD + ":_Slice.row/column labels-codes-aliases-fills"
    props = ("C05",)

    def size_space(self, cfg):
        return {"N": [1, 2, 3], "S": [0, 1, 2], "NO": [0, 1, 2, 3]}

    def run(self, B, cfg):
        N, S, NO = B.size("N", lo=1), B.size("S"), B.size("NO")
        order = B.order_list("order", NO, -S, N)
        other = B.order_list("other_order", 0, 0, 1)
        toks = {}
        for k in ("el_alias", "el_id", "el_label", "el_fill"):
            toks[k] = B.tensor(k, (N,), integer=True)
        for k in ("st_alias", "st_id", "st_label", "st_fill"):
            toks[k] = B.tensor(k, (S,), integer=True)

        def seq_of(t, n):
            return B.seq(n, lambda i: B.rd(t, i), "tokens")

        els = B.seq(N, lambda i: B.stub("element", fill=B.rd(toks["el_fill"], i)), "valid_elements")
        sts = B.seq(S, lambda i: B.stub("subtotal", fill=B.rd(toks["st_fill"], i)), "subtotals")
        dim = B.stub(
            "dimension",
            element_aliases=seq_of(toks["el_alias"], N), subtotal_aliases=seq_of(toks["st_alias"], S),
            element_ids=seq_of(toks["el_id"], N), insertion_ids=seq_of(toks["st_id"], S),
            element_labels=seq_of(toks["el_label"], N), subtotal_labels=seq_of(toks["st_label"], S),
            valid_elements=els, subtotals=sts,
        )
        odim = B.stub("other_dimension")

        def expect(el, st):
            def cell(w):
                x = wrap(B, B.idx_at(order, w), N + S)
                return B.ite(x < N, B.rd(toks[el], x), B.rd(toks[st], x - N))
            return B.spec_tensor((NO,), cell)

        for axis, pre in ((0, "row"), (1, "column")):
            for prop, el, st in (("aliases", "el_alias", "st_alias"), ("codes", "el_id", "st_id"), ("labels", "el_label", "st_label")):
                sl = new_slice(B)
                B.cut(sl, "_dimensions", (dim, odim) if axis == 0 else (odim, dim))
                B.cut(sl, "_row_order_signed_indexes", order if axis == 0 else other)
                B.cut(sl, "_column_order_signed_indexes", other if axis == 0 else order)
                B.eq_tensor("%s_%s" % (pre, prop), B.np.asarray(getattr(sl, "%s_%s" % (pre, prop))), expect(el, st))
        sl = new_slice(B)
        B.cut(sl, "_dimensions", (dim, odim))
        B.cut(sl, "_row_order_signed_indexes", order)
        fills = sl.rows_dimension_fills
        B.eq_tensor("rows_dimension_fills", B.np.asarray(fills), expect("el_fill", "st_fill"))


REGISTRY.append(SliceLabelsCodes())


class SlicePositions(Contract):
    """C05: position-valued outputs are positions in the display order: inserted_*_idxs are
    the positions holding a negative (subtotal) index, diff_*_idxs those whose subtotal is a
    difference, derived_*_idxs those whose element is derived."""

    name = MOD + ":_Slice.inserted/diff/derived idxs"
    props = ("C05",)
    tier = "B"

    def size_space(self, cfg):
        return {"N": [1, 2], "S": [0, 1, 2], "NO": [0, 1, 2, 3]}

    def run(self, B, cfg):
        N, S, NO = B.size("N", lo=1), B.size("S"), B.size("NO")
        order = B.order_list("order", NO, -S, N)
        other = B.order_list("other_order", 0, 0, 1)
        isdiff = [B.flag("diff%d" % i) for i in range(int(S))]
        # derived elements only exist on MR / CA subvariable dimensions, which carry no
        # subtotals (A-NOSUB-ARR, Dimension.subtotals contract)
        isder = [(B.flag("der%d" % i) if int(S) == 0 else False) for i in range(int(N))]
        els = [B.stub("element", derived=isder[i]) for i in range(int(N))]
        sts = [B.stub("subtotal", is_difference=isdiff[i]) for i in range(int(S))]
        dim = B.stub("dimension", valid_elements=els, subtotals=sts)
        odim = B.stub("other", valid_elements=[], subtotals=[])
        for axis, pre in ((0, "row"), (1, "column")):
            sl = new_slice(B)
            B.cut(sl, "_dimensions", (dim, odim) if axis == 0 else (odim, dim))
            B.cut(sl, "_row_order_signed_indexes", order if axis == 0 else other)
            B.cut(sl, "_column_order_signed_indexes", other if axis == 0 else order)
            ins = getattr(sl, "inserted_%s_idxs" % pre)
            dif = getattr(sl, "diff_%s_idxs" % pre)
            der = getattr(sl, "derived_%s_idxs" % pre)
            exp_ins, exp_dif, exp_der = [], [], []
            for w in range(int(NO)):
                o = B.idx_at(order, w)
                for v in range(-int(S), int(N)):  # concretise the signed index (one path each)
                    if o == v:
                        o = v
                        break
                if o < 0:
                    exp_ins.append(w)
                    if isdiff[int(o) + int(S)]:
                        exp_dif.append(w)
                elif isder[int(o)]:
                    exp_der.append(w)
            B.check("inserted_%s_idxs" % pre, tuple(int(i) for i in ins) == tuple(exp_ins))
            B.check("diff_%s_idxs" % pre, tuple(int(i) for i in dif) == tuple(exp_dif))
            B.check("derived_%s_idxs" % pre, tuple(int(i) for i in der) == tuple(exp_der))

    def assumptions(self):
        return ["bounded: order length <= 3, elements <= 2, subtotals <= 2 (tier B, symbolic contents)",
                "A-NOSUB-ARR: a dimension with derived elements has no subtotals (otherwise _derived_element_idxs pads with the wrong count)"]


REGISTRY.append(SlicePositions())


class MinBaseMask(Contract):
    """C02: the minimum-base mask is true exactly where the unweighted base is *below* the
    threshold (row / column / table direction)"""

    name = "min_base_size_mask:MinBaseSizeMask.row/column/table_mask"
    props = ("C02",)

    def size_space(self, cfg):
        return {"N": [0, 1, 2], "M": [0, 1, 2]}

    def run(self, B, cfg):
        N, M = B.size("N"), B.size("M")
        size = B.real("size")
        bases = {d: B.tensor(d + "_unweighted_bases", (N, M), nonneg=True, maybe_nan=True) for d in ("row", "column", "table")}
        sl = B.stub("slice", **{d + "_unweighted_bases": t for d, t in bases.items()})
        m = B.new("min_base_size_mask:MinBaseSizeMask", sl, size)
        for d in ("row", "column", "table"):
            mask = getattr(m, d + "_mask")
            B.all_cells(
                d + "_mask", (N, M),
                lambda i, j, mask=mask, d=d: B.rd_bool(mask, i, j) == (B.rd(bases[d], i, j) < size),
            )
        sl2 = new_slice(B, mask_size=size)
        mm = sl2.min_base_size_mask
        B.check("slice-wiring", type(mm).__name__ == "MinBaseSizeMask" and mm._slice is sl2 and mm._size is size)


REGISTRY.append(MinBaseMask())


class NubWiring(Contract):
    """C01 for a 0-D partition: the mean and the unweighted count are exactly what the cube
    carries; empty iff the unweighted count is not a positive number"""

    name = MOD + ":_Nub.means / unweighted_count / is_empty"
    props = ("C01",)

    def run(self, B, cfg):
        m = B.real("mean", maybe_nan=True)
        n = B.real("n", maybe_nan=True)
        cube = B.stub("cube", means=m, unweighted_counts=n)
        nub = B.new(MOD + ":_Nub", cube, {})
        B.check("means", nub.means is m)
        B.check("unweighted_count", nub.unweighted_count is n)
        B.check("table_name", nub.table_name is None)
        if B.mode == "C":
            # math.isnan() is outside the symbolic facade: checked on concrete replays only
            import math

            B.check("is_empty", bool(nub.is_empty) == bool(math.isnan(n) or n <= 0))


REGISTRY.append(NubWiring())


# C10 (exchange of the two dimensions) rests on the assembly contracts of _Slice as well: rows
# and columns are assembled by mirror-image code, each proved against its own statement
for _c in REGISTRY:
    if _c.__class__.__module__ == __name__ and "C10" not in _c.props and ":_Slice" in _c.name:
        _c.props = tuple(_c.props) + ("C10",)


class PairwiseIndices(Contract):
    """C13: `_Slice._pairwise_indices(p_vals, t_stats, alpha, only_larger)` -- the index set of
    row i contains position j exactly when p[i, j] is below alpha (a NaN p-value is never
    below) and, in only-larger mode, the t statistic is negative (the compared column's
    proportion is the smaller one); positions are reported in increasing order, each once.
    Concrete shapes, symbolic contents (np.where index form: one path per truth assignment)."""

    name = MOD + ":_Slice._pairwise_indices"
    props = ("C13",)
    tier = "B"

    def configs(self):
        return [{"only_larger": False}, {"only_larger": True}]

    def size_space(self, cfg):
        return {"N": [1, 2], "M": [1, 2, 3]}

    def run(self, B, cfg):
        N, M = B.size("N", lo=1), B.size("M", lo=1)
        p = B.tensor("p_vals", (N, M), nonneg=True, maybe_nan=True)
        t = B.tensor("t_stats", (N, M), maybe_nan=True)
        alpha = B.real("alpha", nonneg=True)
        only_larger = cfg["only_larger"]
        fn = B.cls(MOD + ":_Slice")._pairwise_indices
        got = fn(p, t, alpha, only_larger)
        B.check("one-set-per-row", len(got) == int(N))
        for i in range(int(N)):
            row = tuple(int(x) for x in got[i])
            B.check("row%d-increasing-distinct" % i, all(a < b for a, b in zip(row, row[1:])))
            B.check("row%d-in-range" % i, all(0 <= a < int(M) for a in row))
            for j in range(int(M)):
                exp = B.rd(p, i, j) < alpha
                if only_larger:
                    exp = B.band(exp, B.rd(t, i, j) < 0)
                B.check("row%d-col%d-membership" % (i, j), exp if j in row else B.bnot(exp))


REGISTRY.append(PairwiseIndices())


class PairwiseThresholds(EnumContract):
    """C13: the thresholds handed to `_pairwise_indices` -- `_alpha` is the smaller and
    `_alpha_alt` the larger of the (at most two) requested alphas, so that the secondary index
    sets contain the primary ones; one alpha (float or 1-list) leaves the secondary absent;
    nothing requested means 0.05; only-larger mode is on unless explicitly set False.  Run on
    the real `_Slice` (no cube access is needed for these members)."""

    name = MOD + ":_Slice._alpha_values / _alpha / _alpha_alt / _only_larger"
    props = ("C13",)
    bound = "alpha spellings {omitted, None, [], (), 0.0, float, 1-list, 2-list / 2-tuple in both orders, 3-list} over a grid of 7 values in (0, 1); only_larger in {omitted, True, False, None, 0, 1}; pairwise_indices key present / absent; exhaustive"
    clauses = ("alpha-pair", "alpha-order", "wiring", "only-larger")

    def cases(self, cfg, seed, thorough):
        grid = [0.001, 0.01, 0.05, 0.1, 0.3, 0.5, 0.999]
        alphas = [("omitted",), ("value", None), ("value", []), ("value", ()), ("value", 0.0)]
        alphas += [("value", a) for a in grid] + [("value", [a]) for a in grid] + [("value", (a,)) for a in grid]
        for a in grid:
            for b in grid:
                alphas += [("value", [a, b]), ("value", (a, b)), ("value", [a, b, 0.2])]
        for al in alphas:
            for ol in (("omitted",), ("value", True), ("value", False), ("value", None), ("value", 0), ("value", 1)):
                yield {"alpha": al, "only_larger": ol, "key": True}
        yield {"alpha": ("omitted",), "only_larger": ("omitted",), "key": False}
        yield {"alpha": ("omitted",), "only_larger": ("omitted",), "key": None}

    def check_case(self, case, cfg):
        from cr.cube.cubepart import _Slice

        pw = {}
        if case["alpha"][0] == "value":
            pw["alpha"] = case["alpha"][1]
        if case["only_larger"][0] == "value":
            pw["only_larger"] = case["only_larger"][1]
        transforms = {"pairwise_indices": pw} if case["key"] else ({} if case["key"] is False else None)
        sl = _Slice(None, 0, transforms, None, 0)
        bad = []
        # oracle from the statement
        v = pw.get("alpha")
        if not v:
            exp = (0.05, None)
        elif isinstance(v, float):
            exp = (v, None)
        elif len(v) == 1:
            exp = (v[0], None)
        else:
            exp = (min(v[0], v[1]), max(v[0], v[1]))
        got = sl._alpha_values
        if tuple(got) != exp:
            bad.append("alpha-pair")
        if got[1] is not None and not got[0] <= got[1]:
            bad.append("alpha-order")
        if sl._alpha != exp[0] or sl._alpha_alt != exp[1]:
            bad.append("wiring")
        exp_ol = not (pw.get("only_larger", True) is False)
        if sl._only_larger is not exp_ol:
            bad.append("only-larger")
        return bad


REGISTRY.append(PairwiseThresholds())
