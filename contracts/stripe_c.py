"""Contracts for the 1-D partitions: cr.cube.stripe.{cubemeasure, insertion, measure} and
cr.cube.cubepart._Strand.

Serves the strand clauses of C01 (counts and numeric measures), C02 (bases, ranges), C03
(table proportions), C04 (subtotals of every strand measure, categorical-date rule), C05
(assembly and public wiring), C06 (categorical-array strands), C09 (pruning base), C11
(variance / std-dev / std-err / MoE), C14 (scale statistics of a strand), C15 (share of
sum), C17 (population estimates) and C20 (smoothed means)."""
from pvc.harness import Contract, REGISTRY
from . import spec
from .common import mk_dim, size_space_subtotals

CM = "stripe.cubemeasure"
INS = "stripe.insertion"
STRAND_CAT_TYPES = ("BINNED_NUMERIC", "CAT", "CA_CAT", "CA_SUBVAR", "DATETIME", "LOGICAL", "TEXT")
MS = "stripe.measure"
CP = "cubepart"


def check_pair(B, name, blocks, expected, care=None):
    B.check(name + ":is-pair", len(blocks) == 2)
    for a in (0, 1):
        kw = {} if care is None or care[a] is None else dict(care=care[a])
        B.eq_tensor("%s[%d]" % (name, a), blocks[a], expected[a], **kw)


# =======================================================================================
# cube measures


class StripeCubeCounts(Contract):
    """the three count classes of a strand against the valid-element tensor of the response"""

    props = ("C01", "C02", "C03", "C09", "C11")

    def __init__(self, kind):
        self.kind = kind
        self.cls = spec.STRIPE_COUNTS_CLASS[kind]
        self.name = "%s:%s" % (CM, self.cls)

    def size_space(self, cfg):
        return {"R": [1, 2, 3]}

    def run(self, B, cfg):
        kind = self.kind
        R = B.size("R")
        T = B.tensor("T", spec.s_shape(kind, R), nonneg=True)
        obj = B.new("%s:%s" % (CM, self.cls), B.stub("rows_dimension"), T)
        B.eq_tensor("counts", obj.counts, B.spec_tensor((R,), lambda i: spec.s_count(B, T, kind, i)))
        B.eq_tensor("bases", obj.bases, B.spec_tensor((R,), lambda i: spec.s_base(B, T, kind, R, i)))
        B.eq_tensor(
            "pruning_base", obj.pruning_base,
            B.spec_tensor((R,), lambda i: spec.s_pruning_base(B, T, kind, R, i)),
        )
        tb = obj.table_base
        if kind == "CAT":
            B.eq_scalar("table_base", tb, spec.s_base(B, T, kind, R, 0))
        else:
            B.check("table_base-undefined", tb is None)


for _k in spec.SKINDS:
    REGISTRY.append(StripeCubeCounts(_k))


_TYPES = ("CAT", "CAT_DATE", "DATETIME", "TEXT", "BINNED_NUMERIC", "LOGICAL", "MR", "NUM_ARRAY", "CA_CAT")


class StripeCountsFactory(Contract):
    """_BaseCubeCounts.factory: class by rows-dimension type; a categorical-array cube analysed
    as a stack of strands (ca_as_0th) hands strand k the k-th row of the counts (C06)"""

    name = CM + ":_BaseCubeCounts.factory"
    props = ("C01", "C02", "C03", "C06", "C09")

    def configs(self):
        out = [dict(ca=False, t=t) for t in _TYPES]
        out.append(dict(ca=True, t="CA_CAT"))
        return out

    def size_space(self, cfg):
        return {"R": [1, 2], "K": [1, 2, 3]}

    def run(self, B, cfg):
        DT = B.enum("enums:DIMENSION_TYPE")
        dt = getattr(DT, cfg["t"])
        dim = B.stub("rows_dimension", dimension_type=dt)
        R = B.size("R")
        base_cls = B.cls(CM + ":_BaseCubeCounts")
        if cfg["ca"]:
            K = B.size("K", lo=1)
            k = B.integer("slice_idx", 0, K - 1)
            counts = B.tensor("counts", (K, R), nonneg=True)
            obj = base_cls.factory(counts, dim, True, k)
            B.check("class:", type(obj).__name__ == "_CatCubeCounts")
            B.eq_tensor("value:", obj._counts, B.spec_tensor((R,), lambda i: B.rd(counts, k, i)))
        else:
            kind = "MR" if cfg["t"] == "MR" else "ARR" if cfg["t"] == "NUM_ARRAY" else "CAT"
            counts = B.tensor("counts", spec.s_shape(kind, R), nonneg=True)
            obj = base_cls.factory(counts, dim, False, 0)
            B.check("class:", type(obj).__name__ == spec.STRIPE_COUNTS_CLASS[kind])
            B.check("value:", obj._counts is counts)
        B.check("dimension:", obj._rows_dimension is dim)


REGISTRY.append(StripeCountsFactory())

_NUMERIC = {"means": "Means", "medians": "Medians", "stddev": "StdDev", "sums": "Sums"}


class StripeNumericMeasure(Contract):
    """means / medians / stddev / sums of a strand report the value the response carries for
    the row (MR: the 'selected' plane); the factory picks the class by dimension type and
    raises ValueError when the response has no such measure"""

    props = ("C01",)

    def __init__(self, attr):
        self.attr = attr
        self.name = "%s:_BaseCube%s.factory + .%s" % (CM, _NUMERIC[attr], attr)

    def configs(self):
        return [dict(t=t, present=p) for t in _TYPES for p in (True, False)]

    def size_space(self, cfg):
        return {"R": [0, 1, 2]}

    def run(self, B, cfg):
        DT = B.enum("enums:DIMENSION_TYPE")
        dim = B.stub("rows_dimension", dimension_type=getattr(DT, cfg["t"]))
        R = B.size("R")
        mr = cfg["t"] == "MR"
        M = B.tensor("M", (R, 2) if mr else (R,), maybe_nan=True)
        cube = B.stub("cube", **{self.attr: M if cfg["present"] else None})
        base_cls = B.cls("%s:_BaseCube%s" % (CM, _NUMERIC[self.attr]))
        try:
            obj = base_cls.factory(cube, dim)
        except ValueError:
            B.check("ValueError-only-when-measure-absent", not cfg["present"])
            return
        B.check("no-measure-raises", cfg["present"])
        B.eq_tensor(
            self.attr, getattr(obj, self.attr),
            B.spec_tensor((R,), lambda i: B.rd(M, i, 0) if mr else B.rd(M, i)),
        )


for _a in _NUMERIC:
    REGISTRY.append(StripeNumericMeasure(_a))


class StripeCubeMeasuresWiring(Contract):
    """CubeMeasures: weighted counts from cube.counts, unweighted from cube.unweighted_counts;
    a response carrying valid counts for a numeric measure uses those instead; the numeric
    measures come from the cube property of the same name"""

    name = CM + ":CubeMeasures.<wiring>"
    props = ("C01", "C02", "C03", "C04", "C09")

    def configs(self):
        return [dict(valid=v) for v in (False, True)]

    def run(self, B, cfg):
        class Tok:
            def __init__(self, n):
                self.n = n

            def __getitem__(self, k):
                return ("item", self, k)

        toks = {k: Tok(k) for k in ("counts", "unweighted_counts", "weighted_valid_counts", "unweighted_valid_counts")}
        DT = B.enum("enums:DIMENSION_TYPE")
        dim = B.stub("rows_dimension", dimension_type=B.member("rows.dimension_type", "enums:DIMENSION_TYPE", STRAND_CAT_TYPES))
        cube = B.stub(
            "cube", counts=toks["counts"], unweighted_counts=toks["unweighted_counts"],
            weighted_valid_counts=toks["weighted_valid_counts"] if cfg["valid"] else None,
            unweighted_valid_counts=toks["unweighted_valid_counts"] if cfg["valid"] else None,
        )
        cm = B.new(CM + ":CubeMeasures", cube, dim, False, 0)
        w, u = cm.weighted_cube_counts, cm.unweighted_cube_counts
        B.check("weighted", w._counts is toks["weighted_valid_counts" if cfg["valid"] else "counts"])
        B.check("unweighted", u._counts is toks["unweighted_valid_counts" if cfg["valid"] else "unweighted_counts"])
        B.check("weighted:dimension", w._rows_dimension is dim and u._rows_dimension is dim)
        # categorical-array stack: both count objects take row slice_idx
        cm2 = B.new(CM + ":CubeMeasures", cube, dim, True, 3)
        w2, u2 = cm2.weighted_cube_counts, cm2.unweighted_cube_counts
        B.check("ca:weighted", w2._counts == ("item", toks["weighted_valid_counts" if cfg["valid"] else "counts"], 3))
        B.check("ca:unweighted", u2._counts == ("item", toks["unweighted_valid_counts" if cfg["valid"] else "unweighted_counts"], 3))
        for attr, prop in (("means", "cube_means"), ("medians", "cube_medians"), ("stddev", "cube_stddev"), ("sums", "cube_sum")):
            t = Tok(attr)
            cube3 = B.stub("cube", **{attr: t})
            cm3 = B.new(CM + ":CubeMeasures", cube3, dim, False, 0)
            got = getattr(cm3, prop)
            B.check("numeric:" + prop, getattr(got, "_" + attr) is t and got._rows_dimension is dim)


REGISTRY.append(StripeCubeMeasuresWiring())


# =======================================================================================
# insertions


class StripeSubtotals(Contract):
    """stripe.insertion: Sum / PositiveTerm / NegativeTerm / Nan subtotal values"""

    name = INS + ":Sum/PositiveTerm/NegativeTerm/NanSubtotals.subtotal_values"
    props = ("C04",)

    def size_space(self, cfg):
        sp = {"R": [1, 2, 3]}
        sp.update(size_space_subtotals("rows"))
        return sp

    def run(self, B, cfg):
        R = B.size("R", lo=1)
        base = B.tensor("base", (R,), maybe_nan=True)
        rdim, rows = mk_dim(B, "rows", R)
        S = rows.S
        rd = B.rd
        got = B.cls(INS + ":SumSubtotals").subtotal_values(base, rdim)
        B.eq_tensor("sum", got, B.spec_tensor((S,), lambda s: rows.signed_sum(s, lambda i: rd(base, i))))
        got = B.cls(INS + ":PositiveTermSubtotals").subtotal_values(base, rdim)
        B.eq_tensor("positive", got, B.spec_tensor((S,), lambda s: rows.pos_sum(s, lambda i: rd(base, i))))
        got = B.cls(INS + ":NegativeTermSubtotals").subtotal_values(base, rdim)
        B.eq_tensor("negative", got, B.spec_tensor((S,), lambda s: rows.neg_sum(s, lambda i: rd(base, i))))
        got = B.cls(INS + ":NanSubtotals").subtotal_values(base, rdim)
        B.eq_tensor("nan", got, B.spec_tensor((S,), lambda s: B.NaN()))


REGISTRY.append(StripeSubtotals())


# =======================================================================================
# second-order measures


class StripeCountsIface:
    """interface of a stripe _BaseCubeCounts object as exported by the three classes verified
    above: counts >= 0; CAT: bases[i] == table_base == sum counts; MR: bases[i] >= counts[i],
    no table base; numeric array: bases == counts, no table base"""

    def __init__(self, B, tag, R, kind):
        cnt = B.tensor(tag + ".counts", (R,), nonneg=True)
        self.counts = cnt
        rd = B.rd
        if kind == "CAT":
            tb = B.Sum(R, lambda k: rd(cnt, k))
            self.table_base = tb
            self.bases = B.spec_tensor((R,), lambda i: tb)
            self.pruning_base = cnt
        elif kind == "MR":
            self.table_base = None
            self.bases = B.tensor(tag + ".bases", (R,), nonneg=True, ge=[cnt])
            self.pruning_base = self.bases
        else:
            self.table_base = None
            self.bases = B.spec_tensor((R,), lambda i: rd(cnt, i))
            self.pruning_base = cnt
        self.stub = B.stub(
            tag + "_cube_counts", counts=self.counts, bases=self.bases, table_base=self.table_base,
            pruning_base=self.pruning_base,
        )


class StripeEnv:
    def __init__(self, B, kind="CAT", date=False, **cube_measures):
        self.B, self.kind, self.date = B, kind, date
        DT = B.enum("enums:DIMENSION_TYPE")
        self.DT = DT
        self.R = R = B.size("R", lo=1)
        # kind CAT: any type that is neither categorical-date, multiple-response nor numeric array
        other = (lambda: B.member("rows.dimension_type", "enums:DIMENSION_TYPE", STRAND_CAT_TYPES))
        dt = (DT.CAT_DATE if date else other()) if kind == "CAT" else {"MR": DT.MR, "ARR": DT.NUM_ARRAY}[kind]
        self.rdim, self.rows = mk_dim(B, "rows", R, dimension_type=dt, subtotals=(kind == "CAT"))
        self.w = StripeCountsIface(B, "w", R, kind)
        self.u = StripeCountsIface(B, "u", R, kind)
        self.cube_measures = B.stub(
            "cube_measures", weighted_cube_counts=self.w.stub, unweighted_cube_counts=self.u.stub,
            **cube_measures
        )

    @staticmethod
    def size_space(kind="CAT"):
        sp = {"R": [1, 2, 3]}
        if kind == "CAT":
            sp.update(size_space_subtotals("rows"))
        return sp


def pair_stub(B, label, pair, **extra):
    return B.stub(label, base_values=pair[0], subtotal_values=pair[1], blocks=(pair[0], pair[1]), **extra)


class _StripeMeasure(Contract):
    """`<cls>.blocks` of a strand measure built as cls(rows_dimension, measures, cube_measures)"""

    cls = None
    kinds = spec.SKINDS
    dates = False

    def __init__(self):
        self.name = "%s:%s.blocks" % (MS, self.cls)

    def configs(self):
        out = []
        for k in self.kinds:
            out.append(dict(k=k))
            if self.dates and k == "CAT":
                out.append(dict(k=k, date=True))
        return out

    def size_space(self, cfg):
        return StripeEnv.size_space(cfg["k"])

    def cube_measures(self, B, cfg, env):
        return {}

    def measures(self, B, env):
        return {}

    def expected(self, B, env):
        raise NotImplementedError

    def extra(self, B, env, obj):
        pass

    def run(self, B, cfg):
        self._cfg = cfg
        env = StripeEnv(B, cfg["k"], cfg.get("date", False))
        cm = self.cube_measures(B, cfg, env)
        if cm:
            env.cube_measures = B.stub(
                "cube_measures", weighted_cube_counts=env.w.stub, unweighted_cube_counts=env.u.stub, **cm
            )
        som = B.stub("measures", **self.measures(B, env))
        obj = B.new("%s:%s" % (MS, self.cls), env.rdim, som, env.cube_measures)
        check_pair(B, "blocks", obj.blocks, self.expected(B, env))
        self.extra(B, env, obj)

    def assumptions(self):
        return [
            "A-DIM: the rows dimension has at least one valid element (R >= 1)",
            "A-NOSUB-ARR: MR / numeric-array rows dimensions carry no subtotals (Dimension.subtotals contract)",
            "callee contracts assumed at the cut: stripe _BaseCubeCounts interface (verified above), _Subtotal.addend_idxs/subtrahend_idxs strictly increasing in-range index lists",
        ]


def _mk(cls_name, props, expected, measures=None, kinds=spec.SKINDS, dates=False, extra=None, cube_measures=None):
    ns = dict(cls=cls_name, props=props, kinds=kinds, dates=dates,
              expected=lambda self, B, env: expected(B, env))
    if measures is not None:
        ns["measures"] = lambda self, B, env: measures(B, env)
    if extra is not None:
        ns["extra"] = lambda self, B, env, obj: extra(B, env, obj)
    if cube_measures is not None:
        ns["cube_measures"] = lambda self, B, cfg, env: cube_measures(B, cfg, env)
    k = type("S_" + cls_name, (_StripeMeasure,), ns)
    REGISTRY.append(k())
    return k


# ---- counts and bases --------------------------------------------------------------------
_mk("_WeightedCounts", ("C01", "C04", "C03"), lambda B, env: spec.s_count_blocks(B, env, env.w))
_mk("_UnweightedCounts", ("C01", "C04", "C02"), lambda B, env: spec.s_count_blocks(B, env, env.u))


def _range_check(which, attr):
    def extra(B, env, obj):
        cc = getattr(env, which)
        rng = getattr(obj, attr)
        lo, hi = B.rd(rng, 0), B.rd(rng, 1)
        # [min, max] of the per-row bases: both attained, and bounding every row
        B.all_cells(attr + ":bounds", (env.R,), lambda i: B.band(B.fle(lo, B.rd(cc.bases, i)), B.fle(B.rd(cc.bases, i), hi)))
        if env.kind == "CAT":
            B.check(attr + ":cat-is-table-base", B.band(B.feq(lo, cc.table_base), B.feq(hi, cc.table_base)))

    return extra


_mk("_WeightedBases", ("C02", "C04", "C03", "C11"), lambda B, env: spec.s_base_blocks(B, env, env.w),
    extra=_range_check("w", "table_margin_range"))
_mk("_UnweightedBases", ("C02", "C04", "C03"), lambda B, env: spec.s_base_blocks(B, env, env.u),
    extra=_range_check("u", "table_base_range"))


# ---- proportions --------------------------------------------------------------------------
def _m_counts(B, env):
    return dict(weighted_counts=pair_stub(B, "weighted_counts", spec.s_count_blocks(B, env, env.w)))


def _prop_laws(B, env, obj):
    """C03: in [0, 1] unless a difference; NaN exactly where the base is zero; base rows of a
    categorical strand sum to 1 when the base is positive"""
    blocks = obj.blocks
    rows = env.rows
    cc = env.w
    rd = B.rd
    B.all_cells(
        "in[0,1][0]", (env.R,),
        lambda i: B.bor(B.isnan(rd(blocks[0], i)), B.band(B.fle(0, rd(blocks[0], i)), B.fle(rd(blocks[0], i), 1))),
    )
    B.all_cells(
        "nan-iff-zero-base[0]", (env.R,),
        lambda i: B.band(
            B.isnan(rd(blocks[0], i)) == (rd(cc.bases, i) == 0),
            B.bor(rd(cc.bases, i) != 0, rd(cc.counts, i) == 0),
        ),
    )
    if env.kind == "CAT":
        B.all_cells(
            "in[0,1][1]", (rows.S,),
            lambda s: B.bor(
                rows.is_diff(s), B.isnan(rd(blocks[1], s)),
                B.band(B.fle(0, rd(blocks[1], s)), B.fle(rd(blocks[1], s), 1)),
            ),
        )
        B.all_cells(
            "nan-iff-zero-base[1]", (rows.S,),
            lambda s: B.bor(rows.is_diff(s), B.isnan(rd(blocks[1], s)) == (cc.table_base == 0)),
        )
        B.check(
            "sums-to-1",
            B.bor(cc.table_base == 0, B.feq(B.Sum(env.R, lambda i: rd(blocks[0], i)), 1)),
        )


_mk("_TableProportions", ("C03", "C04", "C11", "C17"), lambda B, env: spec.s_proportion_blocks(B, env, env.w),
    measures=_m_counts, dates=True, extra=_prop_laws)


# ---- C11 ------------------------------------------------------------------------------------
def _m_var(B, env):
    return dict(
        table_proportions=pair_stub(B, "table_proportions", spec.s_proportion_blocks(B, env, env.w)),
        weighted_counts=pair_stub(B, "weighted_counts", spec.s_count_blocks(B, env, env.w)),
        weighted_bases=pair_stub(B, "weighted_bases", spec.s_base_blocks(B, env, env.w)),
    )


def _var_nonneg(B, env, obj):
    blocks = obj.blocks
    for a, n in ((0, env.R), (1, env.rows.S)):
        B.all_cells(
            "nonneg[%d]" % a, (n,),
            lambda x, a=a: B.bor(B.isnan(B.rd(blocks[a], x)), B.fle(0, B.rd(blocks[a], x))),
        )


_mk("_TableProportionVariances", ("C11", "C04"), lambda B, env: spec.s_variance_blocks(B, env, env.w),
    measures=_m_var, dates=True, extra=_var_nonneg)


def _m_se(B, env):
    return dict(
        table_proportion_variances=pair_stub(B, "table_proportion_variances", spec.s_variance_blocks(B, env, env.w)),
        weighted_bases=pair_stub(B, "weighted_bases", spec.s_base_blocks(B, env, env.w)),
    )


def _s_stderr(B, env):
    v, nb = spec.s_variance_blocks(B, env, env.w), spec.s_base_blocks(B, env, env.w)
    return spec.s_pair(
        B, env, lambda i: B.sqrt(B.rd(v[0], i) / B.rd(nb[0], i)), lambda s: B.sqrt(B.rd(v[1], s) / B.rd(nb[1], s))
    )


def _s_stddev(B, env):
    v = spec.s_variance_blocks(B, env, env.w)
    return spec.s_pair(B, env, lambda i: B.sqrt(B.rd(v[0], i)), lambda s: B.sqrt(B.rd(v[1], s)))


_mk("_TableProportionStderrs", ("C11",), _s_stderr, measures=_m_se, dates=True)
_mk("_TableProportionStddevs", ("C11",), _s_stddev, measures=_m_se, dates=True)


# ---- C17 ------------------------------------------------------------------------------------
def _m_pop(B, env):
    return dict(
        table_proportions=pair_stub(B, "table_proportions", spec.s_proportion_blocks(B, env, env.w)),
        table_proportion_stderrs=pair_stub(B, "table_proportion_stderrs", _s_stderr(B, env)),
    )


def _s_pop(B, env):
    """every wave of a categorical-date strand projects the full population"""
    if env.date:
        return spec.s_pair(B, env, lambda i: 1.0, lambda s: 1.0)
    return spec.s_proportion_blocks(B, env, env.w)


def _s_pop_se(B, env):
    if env.date:
        return spec.s_pair(B, env, lambda i: 0.0, lambda s: 0.0)
    return _s_stderr(B, env)


_mk("_PopulationProportions", ("C17",), _s_pop, measures=_m_pop, dates=True)
_mk("_PopulationProportionStderrs", ("C17",), _s_pop_se, measures=_m_pop, dates=True)


# ---- numeric measures: NaN subtotals (C04), sums add ---------------------------------------
def _numeric_measure(cls_name, cm_prop, attr, subtotal):
    def cube_measures(B, cfg, env):
        vals = B.tensor("values", (env.R,), maybe_nan=True)
        env.values = vals
        return {cm_prop: B.stub(cm_prop, **{attr: vals})}

    def expected(B, env):
        rows = env.rows
        if subtotal == "nan":
            f1 = lambda s: B.NaN()  # noqa: E731
        else:
            f1 = lambda s: rows.signed_sum(s, lambda i: B.rd(env.values, i))  # noqa: E731
        return spec.s_pair(B, env, lambda i: B.rd(env.values, i), f1)

    _mk(cls_name, ("C01", "C04"), expected, cube_measures=cube_measures)


_numeric_measure("_Means", "cube_means", "means", "nan")
_numeric_measure("_Medians", "cube_medians", "medians", "nan")
_numeric_measure("_StdDev", "cube_stddev", "stddev", "nan")
_numeric_measure("_Sums", "cube_sum", "sums", "sum")


# ---- C15 ------------------------------------------------------------------------------------
def _share_cm(B, cfg, env):
    env.sums = B.tensor("sums", (env.R,), maybe_nan=True)
    return dict(cube_sum=B.stub("cube_sum", sums=env.sums))


_mk("_ShareSum", ("C15", "C04"), lambda B, env: spec.s_share_blocks(B, env, env.sums), cube_measures=_share_cm)


# ---- C04: a difference's count in a valid-count response ------------------------------------
class StripeCountsValidCounts(Contract):
    """the count blocks of a strand travel StripeMeasures -> CubeMeasures -> _CatCubeCounts ->
    _Weighted/_UnweightedCounts: the signed merge of the counts the response carries (the
    valid counts when present).  'In a response that carries valid counts for a numeric measure
    a difference's count is NaN instead' (C04) is applied by _Strand.counts /
    unweighted_counts, like the NaN of population estimates: contract StrandCountsValidCounts"""

    name = MS + ":StripeMeasures.(un)weighted_counts.blocks<valid-count response>"
    props = ("C04",)

    def configs(self):
        return [dict(valid=v, m=m) for v in (False, True) for m in ("weighted_counts", "unweighted_counts")]

    def size_space(self, cfg):
        return StripeEnv.size_space("CAT")

    def run(self, B, cfg):
        DT = B.enum("enums:DIMENSION_TYPE")
        R = B.size("R", lo=1)
        rdim, rows = mk_dim(B, "rows", R, dimension_type=B.member("rows.dimension_type", "enums:DIMENSION_TYPE", STRAND_CAT_TYPES))
        w = B.tensor("w", (R,), nonneg=True)
        u = B.tensor("u", (R,), nonneg=True)
        other = B.stub("not-used")
        if cfg["valid"]:
            cube = B.stub("cube", weighted_valid_counts=w, unweighted_valid_counts=u, counts=other, unweighted_counts=other)
        else:
            cube = B.stub("cube", weighted_valid_counts=None, unweighted_valid_counts=None, counts=w, unweighted_counts=u)
        sm = B.new(MS + ":StripeMeasures", cube, rdim, False, 0)

        class Env:
            pass

        env = Env()
        env.R, env.rows = R, rows

        class CC:
            pass

        for nm, t in (("weighted_counts", w), ("unweighted_counts", u)):
            if nm != cfg["m"]:
                continue
            cc = CC()
            cc.counts = t
            exp = spec.s_count_blocks(B, env, cc)
            blocks = getattr(sm, nm).blocks
            # base rows and ordinary subtotals / differences separately named obligations
            check_pair(B, nm, blocks, exp, care=(None, lambda s: B.bnot(rows.is_diff(s))))
            B.eq_tensor(nm + ":difference", blocks[1], exp[1], care=lambda s: rows.is_diff(s))


REGISTRY.append(StripeCountsValidCounts())


# ---- C14: scale statistics of a strand -------------------------------------------------------
class StripeScaledCounts(Contract):
    """_ScaledCounts: mean / population standard deviation of the numeric values of the
    respondents of the strand's variable (rows without a numeric value ignored), standard
    error = deviation / sqrt(weighted count of numeric-valued respondents); None when no row
    has a numeric value or nobody has a numeric-valued answer"""

    name = MS + ":_ScaledCounts.scale_mean/scale_stddev/scale_stderr"
    props = ("C14",)

    def size_space(self, cfg):
        return {"R": [1, 2, 3]}

    def run(self, B, cfg):
        env = StripeEnv(B, "CAT")
        R = env.R
        values = B.tensor("numeric_values", (R,), maybe_nan=True)
        vseq = B.seq(R, lambda k: B.rd(values, k), "numeric_values")
        rdim = B.stub("rows_dimension", numeric_values=vseq)
        obj = B.new(MS + ":_ScaledCounts", rdim, B.stub("measures"), env.cube_measures)
        cnt = env.w.counts
        rd = B.rd

        def hv(k):
            return B.bnot(B.isnan(rd(values, k)))

        den = B.Sum(R, lambda k: B.ite(hv(k), rd(cnt, k), 0.0))
        num = B.Sum(R, lambda k: B.ite(hv(k), rd(values, k) * rd(cnt, k), 0.0))
        mean = num / den
        ss = B.Sum(R, lambda k: B.ite(hv(k), rd(cnt, k) * (rd(values, k) - mean) * (rd(values, k) - mean), 0.0))
        no_values = _all_nan(B, values, R)
        got = obj.scale_mean
        if got is None:
            B.check("mean:None-only-without-valued-respondents", B.bor(no_values, den == 0))
        else:
            B.check("mean:defined-only-with-valued-respondents", B.band(B.bnot(no_values), den != 0))
            B.eq_scalar("mean", got, mean)
        sd = obj.scale_stddev
        if sd is None:
            B.check("stddev:None-only-without-valued-respondents", B.bor(no_values, den == 0))
        else:
            B.check("stddev:defined-only-with-valued-respondents", B.band(B.bnot(no_values), den != 0))
            B.eq_scalar("stddev", sd, B.sqrt(ss / den))
        se = obj.scale_stderr
        if se is None:
            B.check("stderr:None-only-without-valued-respondents", B.bor(no_values, den == 0))
        else:
            B.check("stderr:defined-only-with-valued-respondents", B.band(B.bnot(no_values), den != 0))
            B.eq_scalar("stderr", se, B.sqrt((ss / den) / den))

    def assumptions(self):
        return ["scale_median (np.repeat / np.median over the expanded respondents) is not under this contract: "
                "bounded end-to-end check e2e:scale ... (strand-scale clause)"]


def _all_nan(B, values, n):
    """no k in range with a numeric value (closed formula over one witness)"""
    import z3
    from pvc import core

    if B.mode == "C":
        return all(B.isnan(B.rd(values, k)) for k in range(int(n)))
    if isinstance(core.raw(n), int):
        return B.band(*[B.isnan(B.rd(values, k)) for k in range(core.raw(n))])
    from .matrix_measure_c import _ScaleContract

    return _ScaleContract._all_nan(None, B, values, n)


REGISTRY.append(StripeScaledCounts())


# ---- C20: smoothed means of a strand ---------------------------------------------------------
class StripeMeansSmoothed(Contract):
    """_MeansSmoothed: the real smoother built from the *rows* dimension applied to the means:
    trailing mean of window w with a NaN prefix on a categorical-date strand, unchanged
    otherwise; subtotals NaN"""

    name = MS + ":_MeansSmoothed.blocks"
    props = ("C20", "C04")

    def configs(self):
        return [dict(date=d) for d in (True, False)]

    def size_space(self, cfg):
        sp = {"R": [1, 2, 3, 4], "w": [0, 1, 2, 3, 4, 5]}
        sp.update(size_space_subtotals("rows", max_s=1))
        return sp

    def run(self, B, cfg):
        DT = B.enum("enums:DIMENSION_TYPE")
        R = B.size("R", lo=1)
        w = B.integer("w")
        sd = {"window": w, "function": "one_sided_moving_avg"}
        rdim, rows = mk_dim(B, "rows", R, dimension_type=DT.CAT_DATE if cfg["date"] else DT.CAT, smoothing_dict=sd)
        means = B.tensor("means", (R,), maybe_nan=True)
        cm = B.stub("cube_measures", cube_means=B.stub("cube_means", means=means))
        obj = B.new(MS + ":_MeansSmoothed", rdim, B.stub("measures"), cm)
        blocks = obj.blocks
        weff = 2 if w == 0 else w
        can = B.band(cfg["date"], weff >= 2, weff <= R)

        def cell(t):
            mean = B.Sum(weff, lambda k: B.rd(means, t - weff + 1 + k)) / weff
            return B.ite(can, B.ite(t < weff - 1, B.NaN(), mean), B.rd(means, t))

        B.eq_tensor("blocks[0]", blocks[0], B.spec_tensor((R,), cell))
        B.eq_tensor("blocks[1]", blocks[1], B.spec_tensor((rows.S,), lambda s: B.NaN()))


REGISTRY.append(StripeMeansSmoothed())


# ---- wiring of the measure collection --------------------------------------------------------
STRIPE_MEASURES = {
    "means": "_Means", "medians": "_Medians", "population_proportions": "_PopulationProportions",
    "population_proportion_stderrs": "_PopulationProportionStderrs", "scaled_counts": "_ScaledCounts",
    "share_sum": "_ShareSum", "smoothed_means": "_MeansSmoothed", "stddev": "_StdDev", "sums": "_Sums",
    "table_proportion_stddevs": "_TableProportionStddevs", "table_proportion_stderrs": "_TableProportionStderrs",
    "table_proportion_variances": "_TableProportionVariances", "table_proportions": "_TableProportions",
    "unweighted_bases": "_UnweightedBases", "unweighted_counts": "_UnweightedCounts",
    "weighted_bases": "_WeightedBases", "weighted_counts": "_WeightedCounts",
}


class StripeMeasuresWiring(Contract):
    """StripeMeasures.<name> is the measure class of that name over the same rows dimension,
    the collection itself and one shared CubeMeasures; the pruning base is the *unweighted*
    one (C09: weights play no part)"""

    name = MS + ":StripeMeasures.<wiring>"
    props = ("C01", "C02", "C03", "C04", "C09", "C11", "C14", "C15", "C17", "C20")

    def run(self, B, cfg):
        cube, dim = B.stub("cube"), B.stub("rows_dimension")
        sm = B.new(MS + ":StripeMeasures", cube, dim, False, 7)
        cm = sm._cube_measures
        B.check(
            "_cube_measures",
            type(cm).__name__ == "CubeMeasures" and cm._cube is cube and cm._rows_dimension is dim
            and cm._ca_as_0th is False and cm._slice_idx == 7,
        )
        for prop, cls in sorted(STRIPE_MEASURES.items()):
            m = getattr(sm, prop)
            B.check(
                "measure:" + prop,
                type(m).__name__ == cls and m._rows_dimension is dim and m._measures is sm and m._cube_measures is cm,
            )
        tok = object()
        sm2 = B.new(MS + ":StripeMeasures", cube, dim, False, 0)
        B.cut(sm2, "_cube_measures", B.stub("cube_measures", unweighted_cube_counts=B.stub("u", pruning_base=tok)))
        B.check("pruning_base:unweighted", sm2.pruning_base is tok)


REGISTRY.append(StripeMeasuresWiring())


# =======================================================================================
# cubepart._Strand


def new_strand(B, cube=None, transforms=None, population=None, ca_as_0th=False, slice_idx=0, mask_size=0):
    cube = cube if cube is not None else B.stub("cube")
    return B.new(CP + ":_Strand", cube, transforms or {}, population, ca_as_0th, slice_idx, mask_size)


def wrap(B, o, n):
    return B.ite(o < 0, o + n, o)


class StrandAssembleVector(Contract):
    """C05: an assembled strand vector is (base values ++ subtotal values) re-indexed by the
    row display order (negative = inserted row), nothing else"""

    name = CP + ":_Strand._assemble_vector"
    props = ("C05",)

    def size_space(self, cfg):
        return {"N": [1, 2, 3], "S": [0, 1, 2], "NO": [0, 1, 2, 3, 4]}

    def run(self, B, cfg):
        N, S, NO = B.size("N", lo=1), B.size("S"), B.size("NO")
        base = B.tensor("base", (N,), maybe_nan=True)
        subs = B.tensor("subs", (S,), maybe_nan=True)
        order = B.order_list("order", NO, -S, N)
        st = new_strand(B)
        B.cut(st, "_row_order_signed_indexes", order)
        out = st._assemble_vector((base, subs))

        def cell(w):
            x = wrap(B, B.idx_at(order, w), N + S)
            return B.ite(x < N, B.rd(base, x), B.rd(subs, x - N))

        B.eq_tensor("assembled", out, B.spec_tensor((NO,), cell))


REGISTRY.append(StrandAssembleVector())

STRAND_VECTOR_PROPS = {
    "counts": "weighted_counts",
    "weighted_counts": "weighted_counts",
    "means": "means",
    "medians": "medians",
    "population_proportion_stderrs": "population_proportion_stderrs",
    "share_sum": "share_sum",
    "smoothed_means": "smoothed_means",
    "stddev": "stddev",
    "sums": "sums",
    "table_proportion_stddevs": "table_proportion_stddevs",
    "table_proportion_stderrs": "table_proportion_stderrs",
    "table_proportions": "table_proportions",
    "unweighted_bases": "unweighted_bases",
    "unweighted_counts": "unweighted_counts",
    "weighted_bases": "weighted_bases",
    "rows_base": "unweighted_counts",
    "rows_margin": "weighted_counts",
}
STRAND_SCALAR_PROPS = {
    "scale_mean": ("scaled_counts", "scale_mean"),
    "scale_median": ("scaled_counts", "scale_median"),
    "scale_std_dev": ("scaled_counts", "scale_stddev"),
    "scale_stddev": ("scaled_counts", "scale_stddev"),
    "scale_std_err": ("scaled_counts", "scale_stderr"),
    "scale_stderr": ("scaled_counts", "scale_stderr"),
    "table_base_range": ("unweighted_bases", "table_base_range"),
    "table_margin_range": ("weighted_bases", "table_margin_range"),
}


class StrandWiring(Contract):
    """every public vector property of a strand hands exactly the blocks of the measure it is
    named after to the assembler (so all outputs share one order vector); scalar statistics
    come straight from the measure (no display transform can reach them)"""

    name = CP + ":_Strand.<public properties>"
    props = ("C05", "C01", "C02", "C03", "C04", "C09", "C11", "C14", "C15", "C17", "C20")

    def run(self, B, cfg):
        class Rec:
            def __init__(self, tag):
                self.tag = tag

        sent = {n: Rec(n) for n in set(STRAND_VECTOR_PROPS.values())}
        scal = {k: Rec(k) for k in STRAND_SCALAR_PROPS}
        per_measure = {}
        for prop, (m, attr) in STRAND_SCALAR_PROPS.items():
            per_measure.setdefault(m, {})[attr] = scal.setdefault((m, attr), Rec((m, attr)))
        attrs = {}
        for n in set(sent) | set(per_measure):
            kw = dict(per_measure.get(n, {}))
            if n in sent:
                kw["blocks"] = sent[n]
            attrs[n] = B.stub(n, **kw)
        som = B.stub("measures", **attrs)
        for prop, mname in sorted(STRAND_VECTOR_PROPS.items()):
            st = new_strand(B)
            B.cut(st, "_measures", som)
            B.cut(st, "diff_row_idxs", ())  # no difference rows: nothing to blank (StrandCountsValidCounts)
            st.__dict__["_assemble_vector"] = lambda blocks: ("vector", blocks)
            got = getattr(st, prop)
            B.check("vector:" + prop, isinstance(got, tuple) and got[0] == "vector" and got[1] is sent[mname])
        for prop, (m, attr) in sorted(STRAND_SCALAR_PROPS.items()):
            st = new_strand(B)
            B.cut(st, "_measures", som)
            B.check("scalar:" + prop, getattr(st, prop) is scal[(m, attr)])
        # the measures are built from the cube, the transformed rows dimension and the
        # categorical-array coordinates of this strand, nothing else
        cube, dim = B.stub("cube"), B.stub("rows_dimension")
        st = new_strand(B, cube=cube, ca_as_0th=True, slice_idx=2)
        B.cut(st, "_rows_dimension", dim)
        sm = st._measures
        B.check(
            "_measures",
            type(sm).__name__ == "StripeMeasures" and sm._cube is cube and sm._rows_dimension is dim
            and sm._ca_as_0th is True and sm._slice_idx == 2,
        )


REGISTRY.append(StrandWiring())


class StrandDerived(Contract):
    """elementwise derivations on assembled vectors: percentages = 100 x proportions, MoE =
    1.959964 x std-error, min-base mask = unweighted base below the threshold, shape"""

    name = CP + ":_Strand.<derived properties>"
    props = ("C03", "C11", "C02", "C05")

    def size_space(self, cfg):
        return {"N": [0, 1, 2, 3]}

    def run(self, B, cfg):
        N = B.size("N")
        X = B.tensor("X", (N,), maybe_nan=True)
        st = new_strand(B)
        B.cut(st, "table_proportions", X)
        B.eq_tensor("table_percentages", st.table_percentages, B.spec_tensor((N,), lambda i: 100 * B.rd(X, i)))
        st = new_strand(B)
        B.cut(st, "table_proportion_stderrs", X)
        B.eq_tensor("table_proportion_moes", st.table_proportion_moes, B.spec_tensor((N,), lambda i: 1.959964 * B.rd(X, i)))
        size = B.real("size")
        U = B.tensor("U", (N,), nonneg=True, maybe_nan=True)
        st = new_strand(B, mask_size=size)
        B.cut(st, "unweighted_bases", U)
        mask = st.min_base_size_mask
        B.all_cells("min_base_size_mask", (N,), lambda i: B.rd_bool(mask, i) == (B.rd(U, i) < size))
        order = B.order_list("order", N, -1, 1)
        st = new_strand(B)
        B.cut(st, "_row_order_signed_indexes", order)
        B.check("row_count", st.row_count == N)
        sh = st.shape
        B.check("shape", len(sh) == 1 and sh[0] == N)


REGISTRY.append(StrandDerived())


class StrandLabelsCodes(Contract):
    """C05: labels, codes, aliases and fills of a strand are (elements ++ subtotals) indexed
    by the same order vector as the measures"""

    name = CP + ":_Strand.row labels-codes-aliases-fills"
    props = ("C05",)

    def size_space(self, cfg):
        return {"N": [1, 2, 3], "S": [0, 1, 2], "NO": [0, 1, 2, 3]}

    def run(self, B, cfg):
        N, S, NO = B.size("N", lo=1), B.size("S"), B.size("NO")
        order = B.order_list("order", NO, -S, N)
        toks = {}
        for k in ("el_alias", "el_id", "el_label", "el_fill"):
            toks[k] = B.tensor(k, (N,), integer=True)
        for k in ("st_alias", "st_id", "st_label", "st_fill"):
            toks[k] = B.tensor(k, (S,), integer=True)

        def seq_of(t, n):
            return B.seq(n, lambda i: B.rd(t, i), "tokens")

        els = B.seq(N, lambda i: B.stub("element", fill=B.rd(toks["el_fill"], i)), "valid_elements")
        sts = B.seq(S, lambda i: B.stub("subtotal", fill=B.rd(toks["st_fill"], i)), "subtotals")
        dim = B.stub(
            "dimension",
            element_aliases=seq_of(toks["el_alias"], N), subtotal_aliases=seq_of(toks["st_alias"], S),
            element_ids=seq_of(toks["el_id"], N), insertion_ids=seq_of(toks["st_id"], S),
            element_labels=seq_of(toks["el_label"], N), subtotal_labels=seq_of(toks["st_label"], S),
            valid_elements=els, subtotals=sts,
        )

        def expect(el, st_):
            def cell(w):
                x = wrap(B, B.idx_at(order, w), N + S)
                return B.ite(x < N, B.rd(toks[el], x), B.rd(toks[st_], x - N))
            return B.spec_tensor((NO,), cell)

        for prop, el, st_ in (("row_aliases", "el_alias", "st_alias"), ("row_codes", "el_id", "st_id"),
                              ("row_labels", "el_label", "st_label"), ("rows_dimension_fills", "el_fill", "st_fill")):
            st = new_strand(B)
            B.cut(st, "_rows_dimension", dim)
            B.cut(st, "_row_order_signed_indexes", order)
            B.eq_tensor(prop, B.np.asarray(getattr(st, prop)), expect(el, st_))


REGISTRY.append(StrandLabelsCodes())


class StrandPopulation(Contract):
    """C17 for a strand: population estimate = population proportion x population x filtered
    fraction, NaN at every subtotal difference (wherever it sits in the display order, however
    many there are); margin of error = 1.959964 x population x fraction x std-error"""

    name = CP + ":_Strand.population_counts / population_counts_moe"
    props = ("C17", "C04")
    tier = "B"

    def configs(self):
        return [dict(date=d) for d in (False, True)]

    def size_space(self, cfg):
        return {"N": [1, 2], "S": [0, 2], "NO": [0, 1, 3]}

    def run(self, B, cfg):
        N, S, NO = B.size("N", lo=1), B.size("S"), B.size("NO")
        n, s = int(N), int(S)
        order = B.order_list("order", NO, -S, N, distinct=True)
        isdiff = [B.flag("diff%d" % i) for i in range(s)]
        pop, frac = B.real("population", nonneg=True), B.real("fraction", nonneg=True, maybe_nan=True)
        if cfg["date"]:
            # contract of stripe _PopulationProportions on a categorical-date strand: integer ones
            base = B.np.repeat(1, (N,))
            subs = B.np.repeat(1, (S,))
        else:
            base = B.tensor("p0", (N,), maybe_nan=True)
            subs = B.tensor("p1", (S,), maybe_nan=True)
        se0 = B.tensor("se0", (N,), nonneg=True, maybe_nan=True)
        se1 = B.tensor("se1", (S,), nonneg=True, maybe_nan=True)
        els = [B.stub("element") for _ in range(n)]
        sts = [B.stub("subtotal", is_difference=isdiff[i]) for i in range(s)]
        dim = B.stub("dimension", valid_elements=els, subtotals=sts)
        som = B.stub(
            "measures",
            population_proportions=B.stub("population_proportions", blocks=(base, subs)),
            population_proportion_stderrs=B.stub("population_proportion_stderrs", blocks=(se0, se1)),
        )
        cube = B.stub("cube", population_fraction=frac)
        st = new_strand(B, cube=cube, population=pop)
        B.cut(st, "_rows_dimension", dim)
        B.cut(st, "_measures", som)
        B.cut(st, "_row_order_signed_indexes", order)
        got = st.population_counts

        def flag_of(x):
            r = False
            for i in range(s):
                r = B.ite(x == n + i, isdiff[i], r) if B.mode != "C" else (isdiff[i] if x == n + i else r)
            return r

        def cell(w):
            x = wrap(B, B.idx_at(order, w), N + S)
            p = B.rd(base, x) * 1.0
            if s > 0:
                p = B.ite(x < N, p, B.rd(subs, x - N) * 1.0)
            return B.ite(flag_of(x), B.NaN(), p * pop * frac)

        B.eq_tensor("population_counts", got, B.spec_tensor((NO,), cell))
        moe = st.population_counts_moe

        def mcell(w):
            x = wrap(B, B.idx_at(order, w), N + S)
            se = B.rd(se0, x)
            if s > 0:
                se = B.ite(x < N, se, B.rd(se1, x - N))
            return 1.959964 * pop * frac * se

        B.eq_tensor("population_counts_moe", moe, B.spec_tensor((NO,), mcell))

    def assumptions(self):
        return ["bounded: <= 2 elements, <= 2 subtotals, duplicate-free display order of length <= 3 (tier B, symbolic contents)"]


REGISTRY.append(StrandPopulation())


class StrandCountsValidCounts(Contract):
    """C04: _Strand.counts / unweighted_counts are the assembled count blocks; in a response
    that carries valid counts for a numeric measure the count of every *difference* row is NaN
    (wherever it sits in the display order), otherwise nothing is blanked"""

    name = CP + ":_Strand.counts / unweighted_counts<valid-count response>"
    props = ("C04", "C01")
    tier = "B"

    def configs(self):
        return [dict(valid=v, m=m) for v in (False, True) for m in ("counts", "unweighted_counts")]

    def size_space(self, cfg):
        return {"N": [1, 2], "S": [0, 2], "NO": [0, 1, 3]}

    def run(self, B, cfg):
        N, S, NO = B.size("N", lo=1), B.size("S"), B.size("NO")
        n, s = int(N), int(S)
        order = B.order_list("order", NO, -S, N, distinct=True)
        isdiff = [B.flag("diff%d" % i) for i in range(s)]
        base = B.tensor("c0", (N,), nonneg=True)
        subs = B.tensor("c1", (S,), maybe_nan=False)
        dim = B.stub("dimension", valid_elements=[B.stub("element") for _ in range(n)],
                     subtotals=[B.stub("subtotal", is_difference=isdiff[i]) for i in range(s)])
        weighted = cfg["m"] == "counts"
        mname = "weighted_counts" if weighted else "unweighted_counts"
        vname = "weighted_valid_counts" if weighted else "unweighted_valid_counts"
        som = B.stub("measures", **{mname: B.stub(mname, blocks=(base, subs))})
        cube = B.stub("cube", **{vname: (B.tensor("valid", (N,), nonneg=True) if cfg["valid"] else None)})
        st = new_strand(B, cube=cube)
        B.cut(st, "_rows_dimension", dim)
        B.cut(st, "_measures", som)
        B.cut(st, "_row_order_signed_indexes", order)
        got = getattr(st, cfg["m"])

        def flag_of(x):
            r = False
            for i in range(s):
                r = B.ite(x == n + i, isdiff[i], r) if B.mode != "C" else (isdiff[i] if x == n + i else r)
            return r

        def cell(w):
            x = wrap(B, B.idx_at(order, w), N + S)
            v = B.rd(base, x) * 1.0
            if s > 0:
                v = B.ite(x < N, v, B.rd(subs, x - N) * 1.0)
            return B.ite(B.band(cfg["valid"], flag_of(x)), B.NaN(), v) if cfg["valid"] else v

        B.eq_tensor("counts", got, B.spec_tensor((NO,), cell))

    def assumptions(self):
        return ["bounded: <= 2 elements, <= 2 subtotals, duplicate-free display order of length <= 3 (tier B, symbolic contents)"]


REGISTRY.append(StrandCountsValidCounts())


class StrandPositions(Contract):
    """C05: position-valued outputs of a strand are positions in the display order"""

    name = CP + ":_Strand.inserted/diff/derived row idxs"
    props = ("C05",)
    tier = "B"

    def size_space(self, cfg):
        return {"N": [1, 2], "S": [0, 1, 2], "NO": [0, 1, 3]}

    def run(self, B, cfg):
        N, S, NO = B.size("N", lo=1), B.size("S"), B.size("NO")
        order = B.order_list("order", NO, -S, N)
        isdiff = [B.flag("diff%d" % i) for i in range(int(S))]
        isder = [(B.flag("der%d" % i) if int(S) == 0 else False) for i in range(int(N))]
        els = [B.stub("element", derived=isder[i]) for i in range(int(N))]
        sts = [B.stub("subtotal", is_difference=isdiff[i]) for i in range(int(S))]
        dim = B.stub("dimension", valid_elements=els, subtotals=sts)
        st = new_strand(B)
        B.cut(st, "_rows_dimension", dim)
        B.cut(st, "_row_order_signed_indexes", order)
        ins, dif, der = st.inserted_row_idxs, st.diff_row_idxs, st.derived_row_idxs
        exp_ins, exp_dif, exp_der = [], [], []
        for w in range(int(NO)):
            o = B.idx_at(order, w)
            for v in range(-int(S), int(N)):  # concretise the signed index (one path each)
                if o == v:
                    o = v
                    break
            if o < 0:
                exp_ins.append(w)
                if isdiff[int(o) + int(S)]:
                    exp_dif.append(w)
            elif isder[int(o)]:
                exp_der.append(w)
        B.check("inserted_row_idxs", tuple(int(i) for i in ins) == tuple(exp_ins))
        B.check("diff_row_idxs", tuple(int(i) for i in dif) == tuple(exp_dif))
        B.check("derived_row_idxs", tuple(int(i) for i in der) == tuple(exp_der))

    def assumptions(self):
        return ["bounded: order length <= 3, elements <= 2, subtotals <= 2 (tier B, symbolic contents)",
                "A-NOSUB-ARR: a dimension with derived elements has no subtotals"]


REGISTRY.append(StrandPositions())

ASM = "stripe.assembler"


class StripeOrderHelpers(Contract):
    """stripe.assembler: the display order of a strand is computed from the rows dimension,
    the rows whose *unweighted* pruning base is zero (C09) and the requested format; the
    sort-by-measure helper hands the collator the blocks of the measure the keyword names, or
    of one of which the public value is a monotone transform (C08)"""

    name = ASM + ":_BaseOrderHelper.display_order / _empty_row_idxs / _SortByMeasureHelper._measure"
    props = ("C08", "C09", "C05")

    MEASURE = {
        "base_unweighted": "unweighted_bases", "base_weighted": "weighted_bases",
        "count_unweighted": "unweighted_counts", "count_weighted": "weighted_counts", "mean": "means",
        "percent": "table_proportions", "percent_moe": "table_proportion_stderrs",
        "percent_stddev": "table_proportion_stddevs", "percent_stderr": "table_proportion_stderrs",
        "population": "population_proportions", "population_moe": "population_proportion_stderrs",
        "share_sum": "share_sum", "sum": "sums",
    }

    def configs(self):
        return [dict(part="tables"), dict(part="empty")]

    def size_space(self, cfg):
        return {"R": [0, 1, 2, 3]}

    def run(self, B, cfg):
        CMd = B.enum("enums:COLLATION_METHOD")
        OF = B.enum("enums:ORDER_FORMAT")
        Base = B.cls(ASM + ":_BaseOrderHelper")
        if cfg["part"] == "empty":
            R = B.size("R")
            pb = B.tensor("pruning_base", (R,), nonneg=True)
            som = B.stub("measures", pruning_base=pb)
            h = B.new(ASM + ":_OrderHelper", B.stub("rows_dimension"), som)
            got = h._empty_row_idxs
            n = B.length(got)
            B.all_cells("empty-rows:in-range-and-empty", (n,),
                        lambda k: B.band(0 <= B.idx_at(got, k), B.idx_at(got, k) < R, B.rd(pb, B.idx_at(got, k)) == 0))
            B.all_cells("empty-rows:increasing", (n - 1,), lambda k: B.idx_at(got, k) < B.idx_at(got, k + 1))
            # complete: every empty row is listed (count of listed == count of empty rows)
            B.check("empty-rows:complete", n == B.Sum(R, lambda i: B.ite(B.rd(pb, i) == 0, 1, 0)))
            return
        # -- helper class by collation method, arguments handed through unchanged
        for method, cls in ((CMd.UNIVARIATE_MEASURE, "_SortByMeasureHelper"), (CMd.LABEL, "_SortByLabelHelper"),
                            (CMd.EXPLICIT_ORDER, "_OrderHelper"), (CMd.PAYLOAD_ORDER, "_OrderHelper")):
            seen = {}
            mod = B.cls(ASM + ":" + cls)
            tok = object()
            own = "_display_order" in mod.__dict__
            orig = mod.__dict__.get("_display_order")
            try:
                setattr(mod, "_display_order", property(lambda self, seen=seen, tok=tok: seen.update(h=self) or tok))
                dim = B.stub("rows_dimension", order_spec=B.stub("order_spec", collation_method=method))
                som = B.stub("measures")
                got = Base.display_order(dim, som, OF.BOGUS_IDS)
            finally:
                if own:
                    setattr(mod, "_display_order", orig)
                else:
                    delattr(mod, "_display_order")
            h = seen.get("h")
            B.check(
                "helper:%s" % method.name,
                got is tok and type(h).__name__ == cls and h._rows_dimension is dim and h._measures is som
                and h._format is OF.BOGUS_IDS,
            )
        # -- keyword table
        names = sorted(set(self.MEASURE.values()))
        sent = {n: B.stub(n, blocks=(object(), object())) for n in names}
        som = B.stub("measures", **sent)
        import itertools

        M = B.enum("enums:MEASURE")
        keys = sorted(set(m.value for m in M) | set(self.MEASURE))
        for key in keys:
            dim = B.stub("rows_dimension", order_spec=B.stub("order_spec", measure_keyname=key))
            h = B.new(ASM + ":_SortByMeasureHelper", dim, som)
            try:
                m = h._measure
            except ValueError:
                B.check("keyword:%s:unsupported-raises-ValueError(falls back to payload order)" % key, key not in self.MEASURE)
                continue
            B.check("keyword:%s" % key, key in self.MEASURE and m is sent[self.MEASURE[key]])
            h2 = B.new(ASM + ":_SortByMeasureHelper", dim, som)
            B.check("keyword:%s:values" % key, h2._element_values is m.blocks[0] and h2._subtotal_values is m.blocks[1])

    def assumptions(self):
        return ["monotone surrogates: percent_moe / population / population_moe are sorted by std-error / proportion "
                "(strictly increasing transforms for a positive population x fraction; F9 otherwise, not decided)"]


REGISTRY.append(StripeOrderHelpers())


class StrandOrderWiring(Contract):
    """_Strand._row_order_signed_indexes / _row_order_bogus_ids / row_order(format) ask the
    stripe order helper with the strand's own rows dimension and measures"""

    name = CP + ":_Strand.row_order wiring"
    props = ("C05", "C07")

    def run(self, B, cfg):
        OF = B.enum("enums:ORDER_FORMAT")
        mod = B.module("cubepart")
        calls = []

        class Helper:
            @staticmethod
            def display_order(rows_dimension, measures, format):
                calls.append((rows_dimension, measures, format))
                return [1, -1, 0] if format is OF.SIGNED_INDEXES else [2, "ins_7", 1]

        orig = mod.stripe_BaseOrderHelper
        mod.stripe_BaseOrderHelper = Helper
        try:
            dim, som = B.stub("rows_dimension"), B.stub("measures")
            st = new_strand(B)
            B.cut(st, "_rows_dimension", dim)
            B.cut(st, "_measures", som)
            signed = st._row_order_signed_indexes
            B.check("signed:call", calls[-1][0] is dim and calls[-1][1] is som and calls[-1][2] is OF.SIGNED_INDEXES)
            B.check("signed:value", [int(x) for x in signed] == [1, -1, 0])
            bogus = st._row_order_bogus_ids
            B.check("bogus:call", calls[-1][0] is dim and calls[-1][1] is som and calls[-1][2] is OF.BOGUS_IDS)
            B.check("row_order(SIGNED)", st.row_order() is signed and st.row_order(OF.SIGNED_INDEXES) is signed)
            B.check("row_order(BOGUS)", st.row_order(OF.BOGUS_IDS) is bogus)
        finally:
            mod.stripe_BaseOrderHelper = orig


REGISTRY.append(StrandOrderWiring())
