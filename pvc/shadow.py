"""Builtins shadowed in the globals of loaded repo modules + the comprehension helper.

Each delegates to the real builtin on concrete arguments (DESIGN 3.1 items 2-3).
"""
import builtins

import z3

from . import core, symnp
from . import sigma as sg
from .core import OutOfReach, ctx, raw, sint, sbool, zi, r_cmp, b_and
from .symnp import SSeq, SIdx, SFamily, STensor


def _sym_len(x):
    if isinstance(x, SSeq):
        return not isinstance(x.n, int)
    if isinstance(x, STensor):
        return x.ndim > 0 and not isinstance(x.rshape[0], int)
    return False


def pvc_len(x):
    if hasattr(x, "slen"):
        return x.slen()
    return builtins.len(x)


class SRange(SIdx):
    def __init__(self, a, b):
        self.a, self.b = raw(a), raw(b)
        n = core._num_op("-", self.b, self.a)
        SIdx.__init__(self, n, lambda k: core._num_op("+", self.a, k), "range")
        self.nonneg = isinstance(self.a, int) and self.a >= 0


def pvc_range(*args):
    if builtins.any(isinstance(a, core.SInt) for a in args):
        if builtins.len(args) == 1:
            return SRange(0, args[0])
        if builtins.len(args) == 2:
            return SRange(args[0], args[1])
        raise OutOfReach("range with step over symbolic ints")
    return builtins.range(*args)


def _item(x, k):
    if isinstance(x, SSeq):
        v = x.at(k)
        return symnp.wrap_scalar(v) if core.is_z3(v) else v
    if isinstance(x, STensor):
        return x.at(k)
    if isinstance(x, (list, tuple)):
        if isinstance(k, int):
            return x[k]
        raise OutOfReach("symbolic index into concrete python sequence")
    raise OutOfReach("zip/enumerate over %r" % (type(x),))


def _slen_raw(x):
    if isinstance(x, SSeq):
        return x.n
    if isinstance(x, STensor):
        return x.rshape[0]
    return builtins.len(x)


def pvc_zip(*its):
    if not builtins.any(_sym_len(i) for i in its):
        return builtins.zip(*its)
    n = _slen_raw(its[0])
    for o in its[1:]:
        symnp._require_same_dim(n, _slen_raw(o), "zip-lengths")
    return SSeq(n, lambda k: builtins.tuple(_item(i, k) for i in its), "zip")


def pvc_enumerate(it, start=0):
    if not _sym_len(it):
        return builtins.enumerate(it, start)
    n = _slen_raw(it)
    return SSeq(n, lambda k: (sint(core._num_op("+", start, k)), _item(it, k)), "enumerate")


class _ShadowMeta(type):
    """class-like shadow of a builtin type: isinstance/issubclass behave as the builtin,
    calling it goes through `_make`."""

    def __instancecheck__(cls, obj):
        return isinstance(obj, cls._real)

    def __subclasscheck__(cls, sub):
        return issubclass(sub, cls._real)

    def __call__(cls, *a, **k):
        return cls._make(*a, **k)


def _mk_tuple(x=()):
    if isinstance(x, (SSeq, STensor)) and _sym_len(x):
        return x
    return builtins.tuple(x)


def _mk_list(x=()):
    if isinstance(x, (SSeq, STensor)) and _sym_len(x):
        return x
    return builtins.list(x)


class pvc_tuple(metaclass=_ShadowMeta):
    _real = builtins.tuple
    _make = staticmethod(_mk_tuple)


class pvc_list(metaclass=_ShadowMeta):
    _real = builtins.list
    _make = staticmethod(_mk_list)


def pvc_any(it):
    if isinstance(it, SSeq) and _sym_len(it):
        c = ctx()
        k = sg.new_binder(c, "e")
        v = it.at(k)
        u = symnp._truthy(symnp._rawsc(v))
        return sbool(symnp._exists(c, k, it.n, u))
    return builtins.any(it)


def pvc_all(it):
    if isinstance(it, SSeq) and _sym_len(it):
        c = ctx()
        k = sg.new_binder(c, "e")
        v = it.at(k)
        u = core.b_not(symnp._truthy(symnp._rawsc(v)))
        return sbool(core.b_not(symnp._exists(c, k, it.n, u)))
    return builtins.all(it)


def pvc_sorted(it, key=None, reverse=False):
    if isinstance(it, SSeq) and _sym_len(it):
        raise OutOfReach("sorted() over symbolic sequence")
    return builtins.sorted(it, key=key, reverse=reverse)


def pvc_comp(kind, it, fn, nested=False):
    """Comprehension helper.  fn(x) returns a list ([] when filtered out, [elt] otherwise;
    for non-innermost generators [inner_result])."""
    if not _sym_len(it):
        out = []
        for x in it:
            r = fn(x)
            if nested:
                for inner in r:
                    if isinstance(inner, SFamily):
                        raise OutOfReach("symbolic inner generator under concrete outer")
                    out.extend(inner)
            else:
                out.extend(r)
        if kind == "set":
            return builtins.set(out)
        if kind == "gen":
            return builtins.iter(out)
        return out
    if kind == "set":
        raise OutOfReach("set comprehension over symbolic sequence")
    c = ctx()
    s = sg.new_binder(c, "s")
    sg._BINDER_IDS.pop(s.get_id(), None)  # a generic index, not a Sigma binder
    n = _slen_raw(it)
    rng = z3.And(s >= 0, s < zi(n))
    x = _item(it, s)
    val = c.merge(lambda: fn(x), s, init_conds=[rng])
    if val is core.EMPTY:
        return SFamily([s], [n], core.EMPTY, "comp-empty")
    if not isinstance(val, list) or builtins.len(val) != 1:
        raise OutOfReach("symbolic filter in comprehension")
    val = val[0]
    if nested:
        if isinstance(val, SFamily) and val.value is core.EMPTY:
            return SFamily([s, val.vars[0]], [n, val.ranges[0]], core.EMPTY, "comp2-empty")
        if isinstance(val, SFamily):
            return SFamily([s] + val.vars, [n] + val.ranges, val.value, "comp2")
        if isinstance(val, list) and builtins.len(val) == 0:
            return SFamily([s, sg.new_binder(c, "s")], [n, 0], core.EMPTY, "comp2-empty")
        raise OutOfReach("concrete inner generator under symbolic outer")
    return SFamily([s], [n], val, "comp")


SHADOWS = {
    "len": pvc_len,
    "range": pvc_range,
    "zip": pvc_zip,
    "enumerate": pvc_enumerate,
    "tuple": pvc_tuple,
    "list": pvc_list,
    "any": pvc_any,
    "all": pvc_all,
    "sorted": pvc_sorted,
    "__pvc_comp__": pvc_comp,
}
