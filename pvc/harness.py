"""Contract harness: backends (P symbolic / B sized / C concrete), stubs, contract runner.

A contract is a subclass of `Contract` living in /verif/contracts.  The same text is
evaluated
  * in mode P  -- symbolic sizes, tensors as uninterpreted functions, quantified invariants
  * in mode B  -- concrete (small) sizes, one z3 constant per tensor cell (bounded tier and
                  counterexample search)
  * in mode C  -- plain Python/numpy values on the *installed* package (replay)
"""
import itertools
import math
import time
from fractions import Fraction

import z3

from . import core, symnp, shadow
from . import sigma as sg
from .core import (
    OutOfReach,
    PathInfeasible,
    SFloat,
    SInt,
    b_and,
    b_implies,
    b_not,
    b_or,
    raw,
    r_cmp,
    sbool,
    sint,
    zb,
    zi,
    zr,
)
from .symnp import SIdx, SSeq, STensor


class OutOfContract(Exception):
    """Real code read an attribute of a collaborator that its contract does not export."""


class Stub:
    """Collaborator cut at its contract: a bag of attributes (callee results)."""

    def __init__(self, _label, **attrs):
        object.__setattr__(self, "_label", _label)
        object.__setattr__(self, "_reads", [])
        for k, v in attrs.items():
            object.__setattr__(self, k, v)

    def __getattribute__(self, name):
        if name.startswith("__") or name in ("_label", "_reads"):
            return object.__getattribute__(self, name)
        try:
            v = object.__getattribute__(self, name)
        except AttributeError:
            raise OutOfContract(
                "%s.%s is not part of the callee contract" % (object.__getattribute__(self, "_label"), name)
            )
        object.__getattribute__(self, "_reads").append(name)
        if core.have_ctx():
            core.ctx().reads.append((object.__getattribute__(self, "_label"), name))
        return v

    def __setattr__(self, name, value):
        raise AttributeError("stub %s is read-only (attempt to set %s)" % (self._label, name))

    def __repr__(self):
        return "<Stub %s>" % self._label



class SMember:
    """A symbolic member of an enumeration class of the real code whose members are plain
    objects compared by identity (cr.cube.enums.DIMENSION_TYPE): an integer index into the
    sorted list of member names, constrained to a declared subset.  `==` / `!=` against a
    real member give an SBool (decided or forked by the path condition); membership in the
    enumeration's frozenset constants goes through `MemberSet`; hashing and the name are out
    of reach (a dict keyed by the type, or a comparison of names, cannot be followed)."""

    def __init__(self, idx, names):
        self._idx = idx  # z3 Int
        self._names = names

    def _index_of(self, other):
        n = getattr(other, "_name", None)
        return self._names.index(n) if n in self._names else None

    def __eq__(self, other):
        if isinstance(other, SMember):
            return sbool(self._idx == other._idx)
        k = self._index_of(other)
        return False if k is None else sbool(self._idx == k)

    def __ne__(self, other):
        r = self.__eq__(other)
        return (not r) if isinstance(r, bool) else ~r

    def __hash__(self):
        raise OutOfReach("hash of a symbolic enumeration member")

    @property
    def name(self):
        raise OutOfReach("name of a symbolic enumeration member")

    _name = name

    def __repr__(self):
        return "<SMember %s>" % (self._idx,)


class MemberSet(frozenset):
    """frozenset constant of the enumeration, also answering membership of an SMember"""

    def __contains__(self, x):
        if isinstance(x, SMember):
            out = False
            for m in frozenset.__iter__(self):
                out = (x == m) | out
            return out
        return frozenset.__contains__(self, x)


def member_names(enum_cls):
    return sorted({v._name for k, v in vars(enum_cls).items() if hasattr(v, "_name") and not k.startswith("_")})


# ---------------------------------------------------------------------------------------
# backends


class BackendBase:
    mode = "?"

    def Sum(self, n, f):
        raise NotImplementedError

    def nan(self):
        return float("nan")


class SymBackend(BackendBase):
    """modes P and B"""

    def __init__(self, c, repo, sizes=None):
        self.c = c
        self.repo = repo
        self.np = repo.np
        self.sizes = sizes  # None => mode P
        self.mode = "P" if sizes is None else "B"
        self.ingredients = {}  # name -> descriptor for model extraction
        self.size_syms = {}
        self.size_fns = {}  # P mode: 'rows.add.n' -> z3 function giving the s-th length

    # -- classes / objects
    def cls(self, path):
        return self.repo.get(path)

    def module(self, modpart):
        """the (privately loaded) module object 'cubepart', 'stripe.assembler', ..."""
        from .loader import PKG

        return self.repo.mod(PKG + "." + modpart)

    def new(self, path, *args, **kw):
        return self.cls(path)(*args, **kw)

    def enum(self, path):
        return self.repo.get(path)

    def member(self, name, path, among):
        """symbolic member of the enumeration at `path`, one of the names in `among`"""
        E = self.repo.get(path)
        names = member_names(E)
        for k, v in list(vars(E).items()):
            if isinstance(v, frozenset) and not isinstance(v, MemberSet):
                setattr(E, k, MemberSet(v))
        z = z3.Int(name)
        self.c.assume(z3.Or(*[z == names.index(n) for n in among]))
        self.ingredients[name] = ("int", z)
        return SMember(z, names)

    # -- ingredients
    def size(self, name, lo=0):
        if name in self.size_syms:
            return self.size_syms[name]
        if self.sizes is not None:
            if name not in self.sizes:
                raise KeyError("size %s missing from sizes" % name)
            v = int(self.sizes[name])
            if v < lo:
                raise PathInfeasible("size below lower bound")
        else:
            z = z3.Int(name)
            self.c.assume(z >= lo)
            self.c.nonneg_ids.add(z.get_id())
            v = SInt(z)
        self.size_syms[name] = v
        self.ingredients[name] = ("size", v)
        return v

    def flag(self, name):
        """boolean ingredient (symbolic in P/B)"""
        b = z3.Bool(name)
        self.ingredients[name] = ("flag", b)
        return sbool(b)

    def real(self, name, nonneg=False, maybe_nan=False):
        v = z3.Real(name)
        if nonneg:
            self.c.assume(v >= 0)
        u = z3.Bool(name + "?nan") if maybe_nan else False
        self.ingredients[name] = ("real", v, u)
        return SFloat(u, v)

    def pynum(self, name, nonneg=False):
        """a JSON / Python number (division by zero raises)"""
        v = z3.Real(name)
        if nonneg:
            self.c.assume(v >= 0)
        self.ingredients[name] = ("real", v, False)
        return core.SPyNum(False, v)

    def integer(self, name, lo=None, hi=None):
        v = z3.Int(name)
        if lo is not None:
            self.c.assume(v >= raw(lo))
        if hi is not None:
            self.c.assume(v < raw(hi))
        self.ingredients[name] = ("int", v)
        return sint(v)

    def tensor(self, name, shape, nonneg=False, maybe_nan=False, integer=False, ge=()):
        """fresh tensor ingredient.  `ge`: spec tensors (same shape) that bound it from below
        cell-wise (opaque dependent ingredient, e.g. a base that is at least the count)."""
        t = self._tensor(name, shape, nonneg, maybe_nan, integer)
        for lower in ge:
            self._assume_ge(name, t, lower)
        if ge and not all(isinstance(d, int) for d in t.rshape):
            # ground instances of the bound at every index the tensor is read at (makes the
            # sums hidden in the lower bound visible to the Sigma fact generator)
            inner, sh, c, seen = t._elem, t.rshape, self.c, set()

            def elem(*idx):
                v = inner(*idx)
                zidx = [zi(i) for i in idx]
                key = tuple(z.get_id() for z in zidx)
                if key not in seen and not any(sg.deps(z) for z in zidx):
                    seen.add(key)
                    rng = z3.And(*[z3.And(z >= 0, z < zi(d)) for z, d in zip(zidx, sh)])
                    for lower in ge:
                        lo = symnp.to_f(lower._elem(*idx))
                        c.assumptions.append(z3.Implies(rng, zr(symnp.to_f(v).v) >= zr(lo.v)))
                return v

            t = STensor(sh, elem, t.kind)
        return t

    def _assume_ge(self, name, t, lower):
        sh = t.rshape
        if all(isinstance(d, int) for d in sh):
            for idx in itertools.product(*[range(d) for d in sh]):
                self.c.assume(raw(symnp.to_f(t._elem(*idx)) >= symnp.to_f(lower._elem(*idx))))
            return
        ks = [z3.Int("%s!g%d" % (name, i)) for i in range(len(sh))]
        for k in ks:
            sg._BINDER_IDS.pop(k.get_id(), None)
        a, b = symnp.to_f(t._elem(*ks)), symnp.to_f(lower._elem(*ks))
        rng = z3.And(*[z3.And(k >= 0, k < zi(d)) for k, d in zip(ks, sh)])
        self.c.assume(z3.ForAll(ks, z3.Implies(rng, zr(a.v) >= zr(b.v))))

    def _tensor(self, name, shape, nonneg=False, maybe_nan=False, integer=False):
        shape = tuple(raw(d) for d in shape)
        nd = len(shape)
        if self.mode == "B" and all(isinstance(d, int) for d in shape):
            cells = {}
            for idx in itertools.product(*[range(d) for d in shape]):
                nm = "%s[%s]" % (name, ",".join(map(str, idx)))
                v = z3.Int(nm) if integer else z3.Real(nm)
                if nonneg:
                    self.c.assume(v >= 0)
                u = z3.Bool(nm + "?nan") if maybe_nan else False
                cells[idx] = SFloat(u, v)

            def elem(*idx):
                if all(isinstance(i, int) for i in idx):
                    return cells[tuple(idx)]
                # symbolic index into concrete cells: ite chain
                r = None
                for cidx, val in cells.items():
                    cond = z3.And(*[zi(i) == j for i, j in zip(idx, cidx)])
                    r = val if r is None else core.f_ite(cond, val, r)
                if r is None:
                    raise IndexError("empty tensor")
                return r

            self.ingredients[name] = ("tensor", shape, cells)
            return STensor(shape, elem, "f")
        f = z3.Function(name, *([z3.IntSort()] * nd + [z3.IntSort() if integer else z3.RealSort()]))
        ks = [z3.Int("%s!q%d" % (name, i)) for i in range(nd)]
        if nd and nonneg:
            self.c.assume(z3.ForAll(ks, f(*ks) >= 0))
        elif nonneg:
            self.c.assume(f() >= 0)
        if maybe_nan:
            fu = z3.Function(name + "?nan", *([z3.IntSort()] * nd + [z3.BoolSort()]))

            def elem(*idx):
                a = [zi(i) for i in idx]
                return SFloat(fu(*a), f(*a))

        else:

            def elem(*idx):
                return SFloat(False, f(*[zi(i) for i in idx]))

        self.ingredients[name] = ("tensorP", shape, f)
        return STensor(shape, elem, "f")

    def idx_list(self, name, length, upper, strictly_increasing=True):
        """index list: `length` entries in [0, upper)"""
        length, upper = raw(length), raw(upper)
        if isinstance(length, int):
            vals = [z3.Int("%s[%d]" % (name, k)) for k in range(length)]
            for v in vals:
                self.c.assume(v >= 0, v < zi(upper))
                self.c.nonneg_ids.add(v.get_id())
            if strictly_increasing:
                for a, b in zip(vals, vals[1:]):
                    self.c.assume(a < b)
            s = SIdx(length, symnp._list_elem(vals, "i"), name)
            s.nonneg = True
            s.in_range_of = upper
            self.ingredients[name] = ("idx", vals)
            return s
        f = z3.Function(name, z3.IntSort(), z3.IntSort())
        core.INDEX_FNS[name] = (f, upper)
        if strictly_increasing:
            # pigeonhole consequence of "strictly increasing into [0, upper)"
            self.c.assume(zi(length) <= zi(upper))
        k, k2 = z3.Int(name + "!q"), z3.Int(name + "!q2")
        self.c.assume(z3.ForAll([k], z3.And(f(k) >= 0, f(k) < zi(upper))))
        if strictly_increasing:
            self.c.assume(
                z3.ForAll([k, k2], z3.Implies(z3.And(0 <= k, k < k2, k2 < zi(length)), f(k) < f(k2)))
            )
        s = SIdx(length, lambda q: _NN(f(zi(q))), name)
        s.nonneg = True
        s.in_range_of = upper
        self.ingredients[name] = ("idxP", f, length)
        return s

    def idx_family(self, name, count, lengths_name, upper):
        """`count` index lists (one per subtotal): returns at(s) -> SIdx"""
        count, upper = raw(count), raw(upper)
        if isinstance(count, int):
            lists = []
            for s in range(count):
                ln = self.size("%s.%s[%d]" % (name, lengths_name, s))
                lists.append(self.idx_list("%s[%d]" % (name, s), ln, upper))
            return lambda s: lists[s] if isinstance(s, int) else _raise(OutOfReach("symbolic subtotal index in B mode"))
        ln = z3.Function("%s.%s" % (name, lengths_name), z3.IntSort(), z3.IntSort())
        self.size_fns["%s.%s" % (name, lengths_name)] = ln
        f = z3.Function(name, z3.IntSort(), z3.IntSort(), z3.IntSort())
        core.INDEX_FNS[name] = (f, upper)
        s_, k, k2 = z3.Int(name + "!s"), z3.Int(name + "!q"), z3.Int(name + "!q2")
        self.c.assume(z3.ForAll([s_], z3.And(ln(s_) >= 0, ln(s_) <= zi(upper))))
        self.c.assume(z3.ForAll([s_, k], z3.And(f(s_, k) >= 0, f(s_, k) < zi(upper))))
        self.c.assume(
            z3.ForAll(
                [s_, k, k2],
                z3.Implies(z3.And(0 <= k, k < k2, k2 < ln(s_)), f(s_, k) < f(s_, k2)),
            )
        )
        self.ingredients[name] = ("idxfamP", f, ln, count)

        def at(s):
            s = zi(raw(s))
            lst = SIdx(ln(s), lambda q: _NN(f(s, zi(q))), "%s[%s]" % (name, s))
            lst.nonneg = True
            lst.in_range_of = upper
            return lst

        return at

    def order_list(self, name, length, lo, hi, distinct=False):
        """arbitrary (possibly repeating unless `distinct`, unordered) list of ints in
        [lo, hi): a display order of signed indexes"""
        length, lo, hi = raw(length), raw(lo), raw(hi)
        if isinstance(length, int):
            vals = [z3.Int("%s[%d]" % (name, k)) for k in range(length)]
            for v in vals:
                self.c.assume(v >= zi(lo), v < zi(hi))
            if distinct and length > 1:
                self.c.assume(z3.Distinct(*vals))
            s = SIdx(length, symnp._list_elem(vals, "i"), name)
            self.ingredients[name] = ("idx", vals)
            return s
        f = z3.Function(name, z3.IntSort(), z3.IntSort())
        k = z3.Int(name + "!q")
        self.c.assume(z3.ForAll([k], z3.And(f(k) >= zi(lo), f(k) < zi(hi))))
        if distinct:
            k2 = z3.Int(name + "!q2")
            self.c.assume(z3.ForAll([k, k2], z3.Implies(z3.And(0 <= k, k < k2, k2 < zi(length)), f(k) != f(k2))))
        s = SIdx(length, lambda q: f(zi(q)), name)
        self.ingredients[name] = ("idxP", f, length)
        return s

    def cut(self, obj, name, value):
        """modular cut: bind the (lazy) attribute `name` of the real object to its callee
        contract's result instead of evaluating the callee"""
        obj.__dict__[name] = value
        return value

    def seq(self, n, at, label="seq"):
        n = raw(n)
        if isinstance(n, int):
            return [at(i) for i in range(n)]
        return SSeq(n, at, label)

    def assume_each(self, n, pred, name="q"):
        """type invariant: pred(s) for every s in [0, n)"""
        n = raw(n)
        if isinstance(n, int):
            for s in range(n):
                self.c.assume(raw(core.lift_bool(pred(s))))
            return
        q = z3.Int(self.c.fresh(name))
        body = raw(core.lift_bool(pred(SInt(q))))
        self.c.assume(z3.ForAll([q], z3.Implies(z3.And(q >= 0, q < zi(n)), zb(body))))

    def stub(self, label, **attrs):
        return Stub(label, **attrs)

    # -- spec helpers
    def rd(self, t, *idx):
        """read tensor cell without bounds obligations (spec side)"""
        if isinstance(t, STensor):
            return symnp.wrap_scalar(t._elem(*[raw(i) for i in idx]))
        raise OutOfReach("rd of %r" % (type(t),))

    def rd_bool(self, t, *idx):
        return sbool(raw(t._elem(*[raw(i) for i in idx])))

    def Sum(self, n, f):
        return symnp.wrap_scalar(symnp._sigma_scalar(raw(n), lambda k: symnp._rawsc(f(sint(k)))))

    def ite(self, c, a, b):
        return symnp.wrap_scalar(symnp.sc_ite(raw(core.lift_bool(c)) if not isinstance(c, bool) else c, symnp._rawsc(a), symnp._rawsc(b)))

    def isnan(self, x):
        return sbool(symnp.to_f(symnp._rawsc(x)).u)

    def feq(self, a, b):
        """float equality (exact in the real-arithmetic model, tolerant in mode C)"""
        return symnp.to_f(symnp._rawsc(a)) == symnp.to_f(symnp._rawsc(b))

    def fle(self, a, b):
        return symnp.to_f(symnp._rawsc(a)) <= symnp.to_f(symnp._rawsc(b))

    def band(self, *xs):
        return sbool(b_and(*[raw(core.lift_bool(x)) for x in xs]))

    def bor(self, *xs):
        return sbool(b_or(*[raw(core.lift_bool(x)) for x in xs]))

    def bnot(self, x):
        return sbool(b_not(raw(core.lift_bool(x))))

    def NaN(self):
        return SFloat(True, 0)

    def sqrt(self, x):
        return symnp._sqrt_scalar(symnp._rawsc(x))

    def Phi(self, x):
        from . import symstats

        return symstats.norm.cdf(x)

    def Tcdf(self, x, df):
        from . import symstats

        return symstats.t.cdf(x, df=df)

    def rank(self, t):
        """matrix rank of a tensor (A-NP contract of np.linalg.matrix_rank)"""
        return self.np.linalg.matrix_rank(t)

    def spec_tensor(self, shape, f):
        shape = tuple(raw(d) for d in shape)
        return STensor(shape, lambda *idx: symnp._rawsc(f(*[sint(i) for i in idx])), "f")

    def idx_at(self, lst, k):
        """k-th entry of an index list (spec side)"""
        if isinstance(lst, SSeq):
            return sint(lst.at(raw(k)))
        return lst[k]

    def length(self, x):
        return shadow.pvc_len(x)

    # -- obligations
    def check(self, name, cond, extra_hyps=(), facts=(), kind="post", msg=None):
        cond = raw(core.lift_bool(cond)) if not isinstance(cond, bool) else cond
        hy = [raw(h) for h in extra_hyps]
        hy = [h for h in hy if core._bconst(h) is not True]
        info = {"facts": list(facts)} if facts else None
        if msg is not None:
            info = dict(info or {}, msg=msg)
        ob = core.Obligation(name, self.c.hyps() + hy, zb(cond), kind, info)
        self.c.obligations.append(ob)

    def skolems(self, shape, base="i"):
        """fresh in-range index constants for `shape`; returns (idx list, range hyps)"""
        idx, hy = [], []
        for d in shape:
            d = raw(d)
            z = z3.Int(self.c.fresh(base))
            hy.append(z3.And(z >= 0, z < zi(d)))
            self.c.nonneg_ids.add(z.get_id())
            idx.append(SInt(z))
        return idx, hy

    def cells(self, shape):
        """iterate over cells: P -> one skolem cell; B -> all concrete cells (or skolem if big)"""
        shape = tuple(raw(d) for d in shape)
        if any(isinstance(d, int) and d == 0 for d in shape):
            return
        if all(isinstance(d, int) for d in shape):
            tot = 1
            for d in shape:
                tot *= d
            if tot <= (64 if self.mode == "B" else 6):
                for idx in itertools.product(*[range(d) for d in shape]):
                    yield list(idx), []
                return
        idx, hy = self.skolems(shape)
        yield idx, hy

    def eq_scalar(self, name, a, e, extra_hyps=()):
        a, e = symnp.to_f(symnp._rawsc(a)), symnp.to_f(symnp._rawsc(e))
        same_u = b_or(b_and(a.u, e.u), b_and(b_not(a.u), b_not(e.u)))
        goal = b_and(same_u, b_implies(b_not(a.u), r_cmp("==", a.v, e.v)))
        facts = []
        if core.is_z3(a.v) or core.is_z3(e.v):
            za, ze = zr(a.v), zr(e.v)
            if not za.eq(ze):
                facts = self._equality_certificate(za, ze, a.u, e.u, extra_hyps)
        self.check(name, goal, extra_hyps, facts)

    def _equality_certificate(self, za, ze, ua, ue, extra_hyps):
        """certificates for za == ze: identities of rational functions, per feasible truth
        assignment of the ite-conditions involved (no non-linear search in the solver).
        Each fact reads: (assignment and all divisors non-zero) => za == ze."""
        from .run import _denominators

        qf = [h for h in self.c.hyps() + [raw(h) for h in extra_hyps] if core.is_z3(h) and not z3.is_quantifier(h)]
        base = z3.Solver()
        base.set("timeout", 1000)
        for h in qf:
            base.add(h)
        for u in (ua, ue):
            if core._bconst(u) is None:
                base.add(z3.Not(u))

        def feasible(assign):
            lits = [c if v else z3.Not(c) for c, v in assign]
            return base.check(*lits) != z3.unsat

        res = sg.certify_equal_by_cases(za, ze, feasible)
        if res is None:
            return []
        dens = _denominators(za) + _denominators(ze)
        guard = [d != 0 for d in dens]
        facts = []
        for assign, ok in res:
            if not ok:
                continue
            lits = [c if v else z3.Not(c) for c, v in assign]
            facts.append(z3.Implies(z3.And(*(lits + guard)) if (lits or guard) else z3.BoolVal(True), za == ze))
        return facts

    def eq_tensor(self, name, actual, expected, care=None):
        """actual: STensor; expected: STensor (from spec_tensor).  nan-equal, same shape.
        `care(*idx) -> bool`: cells where it is false are left unspecified."""
        if not isinstance(actual, STensor):
            self.check(name + ":is-array", False)
            return
        if actual.ndim != expected.ndim:
            self.check(name + ":rank", False)
            return
        for ax, (da, de) in enumerate(zip(actual.rshape, expected.rshape)):
            if symnp.same_dim(da, de) is not True:
                self.check("%s:shape[%d]" % (name, ax), r_cmp("==", da, de))
        for idx, hy in self.cells(expected.rshape):
            tag = "" if hy or not idx else "@%s" % ",".join(map(str, idx))
            try:
                a = actual._elem(*[raw(i) for i in idx])
            except IndexError:
                # reading an empty array: fine iff the cell range is empty
                self.check(name + tag + ":empty-range", False, hy)
                continue
            e = expected._elem(*[raw(i) for i in idx])
            if care is not None:
                cond = raw(core.lift_bool(care(*[sint(raw(i)) for i in idx])))
                if core._bconst(cond) is False:
                    continue
                hy = list(hy) + ([cond] if core._bconst(cond) is None else [])
            self.eq_scalar(name + tag, a, e, hy)

    def all_cells(self, name, shape, pred):
        for idx, hy in self.cells(shape):
            tag = "" if hy or not idx else "@%s" % ",".join(map(str, idx))
            try:
                p = pred(*idx)
            except IndexError:
                self.check(name + tag + ":empty-range", False, hy)
                continue
            self.check(name + tag, p, hy)


def _NN(term):
    """record the term as known non-negative in the current ctx (justified by the
    quantified range assumption of its index list) and return it"""
    core.ctx().nonneg_ids.add(term.get_id())
    return term


def _raise(e):
    raise e


_native_done = []


def activate_native():
    """make `import cr.cube` resolve to the tree under verification (PVC_REPO_SRC)"""
    if _native_done:
        return
    _native_done.append(1)
    import os
    import sys

    src = os.environ.get("PVC_REPO_SRC")
    if not src or os.path.realpath(src) == "/repo/src":
        return
    for k in [k for k in sys.modules if k == "cr" or k.startswith("cr.")]:
        del sys.modules[k]
    sys.path.insert(0, src)
    import importlib

    m = importlib.import_module("cr")
    p = os.path.join(src, "cr")
    if hasattr(m, "__path__") and p not in list(m.__path__):
        m.__path__.insert(0, p)
    cube = importlib.import_module("cr.cube")
    assert os.path.realpath(cube.__file__).startswith(os.path.realpath(src)), cube.__file__


class ConcreteBackend(BackendBase):
    """mode C: real numpy, installed package, values from a model / generator."""

    mode = "C"

    def __init__(self, values, sizes):
        import numpy

        self.np = numpy
        self.values = values
        self.sizes = sizes
        self.failures = []
        self.checked = 0

    def module(self, modpart):
        import importlib

        activate_native()
        return importlib.import_module("cr.cube." + modpart)

    def cls(self, path):
        import importlib

        activate_native()
        modpart, _, attr = path.partition(":")
        m = importlib.import_module("cr.cube." + modpart)
        obj = m
        for a in attr.split("."):
            obj = getattr(obj, a)
        return obj

    def new(self, path, *args, **kw):
        return self.cls(path)(*args, **kw)

    enum = cls

    def member(self, name, path, among):
        E = self.cls(path)
        return getattr(E, member_names(E)[int(self.values[name])])

    def size(self, name, lo=0):
        return int(self.sizes[name])

    def flag(self, name):
        return bool(self.values[name])

    def real(self, name, nonneg=False, maybe_nan=False):
        return self.np.float64(self.values[name])

    def pynum(self, name, nonneg=False):
        return float(self.values[name])

    def integer(self, name, lo=None, hi=None):
        return int(self.values[name])

    def tensor(self, name, shape, nonneg=False, maybe_nan=False, integer=False, ge=()):
        a = self.np.array(self.values[name], dtype=float).reshape(tuple(int(d) for d in shape))
        return a

    def idx_list(self, name, length, upper, strictly_increasing=True):
        return self.np.array(self.values[name], dtype=int)

    def idx_family(self, name, count, lengths_name, upper):
        lists = [self.np.array(self.values["%s[%d]" % (name, s)], dtype=int) for s in range(int(count))]
        return lambda s: lists[s]

    def order_list(self, name, length, lo, hi, distinct=False):
        return self.np.array(self.values[name], dtype=int)

    def cut(self, obj, name, value):
        obj.__dict__[name] = value
        return value

    def seq(self, n, at, label="seq"):
        return [at(i) for i in range(int(n))]

    def assume_each(self, n, pred, name="q"):
        for s in range(int(n)):
            if not pred(s):
                raise SkipInput()

    def stub(self, label, **attrs):
        import types

        return types.SimpleNamespace(**attrs)

    def rd(self, t, *idx):
        if any(i is None for i in idx):
            return self.np.float64("nan")  # read through a non-existent list entry (guarded in specs)
        idx = tuple(int(i) for i in idx)
        if any(not (0 <= i < n) for i, n in zip(idx, self.np.shape(t))):
            return self.np.float64("nan")  # out-of-range read in a not-taken spec branch
        return self.np.float64(t[idx])

    def rd_bool(self, t, *idx):
        return bool(t[tuple(int(i) for i in idx)])

    def Sum(self, n, f):
        return sum((f(k) for k in range(int(n))), self.np.float64(0))

    def ite(self, c, a, b):
        return a if c else b

    def isnan(self, x):
        return x != x

    def feq(self, a, b):
        a, b = float(a), float(b)
        return a == b or abs(a - b) <= 1e-9 * max(1.0, abs(a), abs(b))

    def fle(self, a, b):
        a, b = float(a), float(b)
        return a <= b or abs(a - b) <= 1e-9 * max(1.0, abs(a), abs(b))

    def band(self, *xs):
        return all(bool(x) for x in xs)

    def bor(self, *xs):
        return any(bool(x) for x in xs)

    def bnot(self, x):
        return not bool(x)

    def NaN(self):
        return self.np.float64("nan")

    def sqrt(self, x):
        return self.np.sqrt(self.np.float64(x))

    def Phi(self, x):
        from scipy.stats import norm

        return self.np.float64(norm.cdf(x))

    def Tcdf(self, x, df):
        from scipy.stats import t

        with self.np.errstate(all="ignore"):
            return self.np.float64(t.cdf(x, df=df))

    def rank(self, t):
        return int(self.np.linalg.matrix_rank(t)) if min(t.shape) > 0 else 0

    def spec_tensor(self, shape, f):
        shape = tuple(int(d) for d in shape)
        a = self.np.empty(shape, dtype=float)
        with self.np.errstate(all="ignore"):
            for idx in itertools.product(*[range(d) for d in shape]):
                a[idx] = f(*idx)
        return a

    def idx_at(self, lst, k):
        if not (0 <= k < len(lst)):
            return None
        return int(lst[k])

    def length(self, x):
        return len(x)

    def check(self, name, cond, extra_hyps=(), facts=(), kind="post", msg=None):
        self.checked += 1
        if not bool(cond):
            self.failures.append(name)

    def eq_scalar(self, name, a, e, extra_hyps=()):
        a, e = float(a), float(e)
        ok = (a != a and e != e) or (a == e) or (
            a == a and e == e and abs(a - e) <= 1e-9 * max(1.0, abs(a), abs(e))
        )
        self.check(name, ok)

    def eq_tensor(self, name, actual, expected, care=None):
        np = self.np
        actual = np.asarray(actual, dtype=float)
        if actual.shape != expected.shape:
            self.check(name + ":shape %s vs %s" % (actual.shape, expected.shape), False)
            return
        if care is not None:
            actual, expected = actual.copy(), expected.copy()
            for idx in itertools.product(*[range(d) for d in expected.shape]):
                if not care(*idx):
                    actual[idx] = expected[idx] = 0.0
        ok = np.allclose(actual, expected, rtol=1e-9, atol=1e-12, equal_nan=True)
        self.check(name, ok)

    def cells(self, shape):
        for idx in itertools.product(*[range(int(d)) for d in shape]):
            yield list(idx), []

    def all_cells(self, name, shape, pred):
        for idx, hy in self.cells(shape):
            self.check("%s[%s]" % (name, ",".join(map(str, idx))), pred(*idx))


# ---------------------------------------------------------------------------------------
# contracts


class Contract:
    """Base class.  Subclasses define:
    name      : 'module:Class.attr' (unique id, used in obligation ids)
    props     : tuple of property ids the contract serves
    configs() : iterable of dicts (finite configuration space, enumerated exhaustively)
    run(B, cfg): build state, call the real function, state the postconditions
    sizes(cfg): dict name -> list of candidate small values (for mode B / concretisation)
    """

    name = None
    props = ()
    tier = "P"
    min_obligations = 1

    def configs(self):
        return [{}]

    def run(self, B, cfg):
        raise NotImplementedError

    def size_space(self, cfg):
        return {}

    def assumptions(self):
        return []


REGISTRY = []


def register(cls):
    REGISTRY.append(cls())
    return cls


class SkipInput(Exception):
    """random input does not satisfy the contract's precondition"""


class RandomConcreteBackend(ConcreteBackend):
    """mode C with inputs drawn at random (recorded in self.values for replay)."""

    def __init__(self, rnd, sizes):
        ConcreteBackend.__init__(self, {}, sizes)
        self.rnd = rnd

    def size(self, name, lo=0):
        if name not in self.sizes:
            self.sizes[name] = self.rnd.choice([0, 1, 2, 3])
        v = int(self.sizes[name])
        if v < lo:
            raise SkipInput()
        return v

    def member(self, name, path, among):
        E = self.cls(path)
        self.values[name] = member_names(E).index(self.rnd.choice(sorted(among)))
        return ConcreteBackend.member(self, name, path, among)

    def flag(self, name):
        self.values[name] = self.rnd.random() < 0.5
        return self.values[name]

    def real(self, name, nonneg=False, maybe_nan=False):
        v = float(self.rnd.choice([0, 1, 2, 3, 5, 0.5, 2.25]))
        if not nonneg and self.rnd.random() < 0.3:
            v = -v
        if maybe_nan and self.rnd.random() < 0.15:
            v = float("nan")
        self.values[name] = v
        return self.np.float64(v)

    def pynum(self, name, nonneg=False):
        v = float(self.rnd.choice([0, 0, 1, 2, 3, 5, 0.5, 2.25]))
        if not nonneg and self.rnd.random() < 0.3:
            v = -v
        self.values[name] = v
        return v

    def integer(self, name, lo=None, hi=None):
        lo = 0 if lo is None else int(lo)
        hi = lo + 4 if hi is None else int(hi)
        if hi <= lo:
            raise SkipInput()
        v = self.rnd.randrange(lo, hi)
        self.values[name] = v
        return v

    def tensor(self, name, shape, nonneg=False, maybe_nan=False, integer=False, ge=()):
        shape = tuple(int(d) for d in shape)
        n = 1
        for d in shape:
            n *= d
        if ge:
            # dependent ingredient: (max of the lower bounds) + a random non-negative excess
            low = ge[0]
            for g in ge[1:]:
                low = self.np.maximum(low, g)
            exc = self.np.array(
                [float(self.rnd.choice([0, 0, 1, 2, 3, 0.5])) for _ in range(n)], dtype=float
            ).reshape(shape)
            a = self.np.asarray(low, dtype=float).reshape(shape) + exc
            self.values[name] = a.tolist()
            return a
        vals = []
        for _ in range(n):
            v = float(self.rnd.choice([0, 0, 1, 2, 3, 4, 7] if integer else [0, 0, 1, 2, 3, 4, 7, 0.5, 1.25]))
            if not nonneg and self.rnd.random() < 0.25:
                v = -v
            if maybe_nan and self.rnd.random() < 0.12:
                v = float("nan")
            vals.append(v)
        a = self.np.array(vals, dtype=float).reshape(shape)
        self.values[name] = a.tolist()
        return a

    def idx_list(self, name, length, upper, strictly_increasing=True):
        length, upper = int(length), int(upper)
        if length > upper:
            raise SkipInput()
        v = sorted(self.rnd.sample(range(upper), length))
        self.values[name] = v
        return self.np.array(v, dtype=int)

    def idx_family(self, name, count, lengths_name, upper):
        lists = []
        for s in range(int(count)):
            ln = self.size("%s.%s[%d]" % (name, lengths_name, s))
            lists.append(self.idx_list("%s[%d]" % (name, s), ln, upper))
        return lambda s: lists[s]

    def order_list(self, name, length, lo, hi, distinct=False):
        lo, hi = int(lo), int(hi)
        if hi <= lo and int(length) > 0:
            raise SkipInput()
        if distinct:
            if int(length) > hi - lo:
                raise SkipInput()
            v = self.rnd.sample(range(lo, hi), int(length))
        else:
            v = [self.rnd.randrange(lo, hi) for _ in range(int(length))]
        self.values[name] = v
        return self.np.array(v, dtype=int)



class EnumContract(Contract):
    """Bounded stand-in by exhaustive enumeration (tier E): the real functions of the
    installed package are run on *every* discrete input within a stated bound (or a seeded
    sample of it in the quick tier) and compared with an oracle written from the property
    statement.  Used where the code is dict / string / sort plumbing over discrete values
    (ids, anchors, flags) that the symbolic tiers cannot reach.  Never counted as proved."""

    tier = "E"
    bound = "unstated"
    clauses = ()

    def cases(self, cfg, seed, thorough):
        raise NotImplementedError

    def check_case(self, case, cfg):
        """-> list of failed clause names ([] if all hold)"""
        raise NotImplementedError
