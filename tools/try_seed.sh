#!/bin/sh
# usage: tools/try_seed.sh <seed dir with patch.diff> <property ids...>
# runs the checks against a scratch copy of /repo with the patch applied (PVC_REPO_SRC);
# /repo itself is not touched.  The scratch copy is removed afterwards.
d=$1; shift
s=/dev/shm/seedrun_$$
rm -rf $s; mkdir -p $s; rsync -a --exclude .git /repo/ $s/
(cd $s && patch -s -p1 < "$d/patch.diff") || { echo "PATCH FAILED"; rm -rf $s; exit 9; }
trap 'rm -rf '$s EXIT
cd /verif
for p in "$@"; do
  PVC_REPO_SRC=$s/src timeout ${SEED_TIMEOUT:-900} ./check $p > /tmp/seed_out_$p.$$ 2>&1; rc=$?
  echo "== $p exit $rc"; grep -E "^VIOLATION|^UNDEC|^CHECKER" /tmp/seed_out_$p.$$ | cut -c1-300 | head -8; tail -1 /tmp/seed_out_$p.$$
done
