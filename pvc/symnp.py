"""Symbolic numpy facade (DESIGN 3.2).  Bound to the name `np` inside the loaded repo
modules.  Tensors are in pull-back form: (shape, elem) with elem: index tuple -> scalar.

Scalar kinds inside tensors:  'f' -> SFloat,  'i' -> raw int,  'b' -> raw bool,
'o' -> arbitrary python object (labels...).

Everything not modelled raises OutOfReach (the function then falls to the bounded tier).
"""
import math
from fractions import Fraction

import z3

from . import core
from .core import (
    OutOfReach,
    SBool,
    SFloat,
    SInt,
    b_and,
    b_ite,
    b_not,
    b_or,
    ctx,
    f_ite,
    is_int_raw,
    is_z3,
    r_cmp,
    r_ite,
    raw,
    sbool,
    sint,
    zb,
    zi,
    zr,
)
from . import sigma as sg

nan = float("nan")
inf = float("inf")
float64 = float
int64 = int
newaxis = None
pi = math.pi


class _SIndexHelper:
    def __getitem__(self, k):
        return k


s_ = _SIndexHelper()


class errstate:
    def __init__(self, **kw):
        pass

    def __enter__(self):
        return self

    def __exit__(self, *a):
        return False


# ---------------------------------------------------------------------------------------
# scalar algebra over kinds


def kind_of(x):
    if isinstance(x, SFloat):
        return "f"
    if isinstance(x, (bool, SBool)):
        return "b"
    if isinstance(x, (int, SInt)):
        return "i"
    if isinstance(x, (float, Fraction)):
        return "f"
    if is_z3(x):
        if z3.is_bool(x):
            return "b"
        if x.sort() == z3.IntSort():
            return "i"
        return "f"
    try:
        import numpy as _np

        if isinstance(x, _np.bool_):
            return "b"
        if isinstance(x, _np.integer):
            return "i"
        if isinstance(x, _np.floating):
            return "f"
    except ImportError:  # pragma: no cover
        pass
    return "o"


def _unnp(x):
    try:
        import numpy as _np

        if isinstance(x, _np.generic):
            return x.item()
    except ImportError:  # pragma: no cover
        pass
    return x


def to_f(x):
    x = _unnp(x)
    if isinstance(x, SFloat):
        return x
    return SFloat.lift(x)


def to_i(x):
    x = _unnp(raw(x))
    k = kind_of(x)
    if k == "b":
        if isinstance(x, bool):
            return int(x)
        return z3.If(x, z3.IntVal(1), z3.IntVal(0))
    if k == "i":
        return x
    raise OutOfReach("to_i of %r" % (x,))


def sc_bin(op, a, b):
    a, b = _unnp(raw(a)) if not isinstance(a, SFloat) else a, _unnp(raw(b)) if not isinstance(b, SFloat) else b
    ka, kb = kind_of(a), kind_of(b)
    if "o" in (ka, kb):
        raise OutOfReach("arithmetic on objects")
    if ka != "f" and kb != "f" and op in "+-*":
        return core._num_op(op, to_i(a), to_i(b))
    fa, fb = to_f(a if ka != "b" else to_i(a)), to_f(b if kb != "b" else to_i(b))
    return fa._bin(fb, op)


def sc_cmp(op, a, b):
    """returns raw bool"""
    a, b = (_unnp(raw(a)) if not isinstance(a, SFloat) else a), (
        _unnp(raw(b)) if not isinstance(b, SFloat) else b
    )
    ka, kb = kind_of(a), kind_of(b)
    if ka == "o" or kb == "o":
        if op == "==":
            return a == b
        if op == "!=":
            return a != b
        raise OutOfReach("ordering on objects")
    if ka == "b" and kb == "b" and op in ("==", "!="):
        eq = b_or(b_and(a, b), b_and(b_not(a), b_not(b)))
        return eq if op == "==" else b_not(eq)
    if ka != "f" and kb != "f":
        return r_cmp(op, to_i(a), to_i(b))
    fa, fb = to_f(a if ka != "b" else to_i(a)), to_f(b if kb != "b" else to_i(b))
    return raw(fa._cmp(fb, op))


def sc_ite(c, a, b):
    ka, kb = kind_of(a), kind_of(b)
    if ka == "f" or kb == "f":
        return f_ite(c, to_f(a), to_f(b))
    if ka == "b" and kb == "b":
        return b_ite(c, raw(a), raw(b))
    if ka == "o" or kb == "o":
        cc = core._bconst(c)
        if cc is None:
            raise OutOfReach("ite over objects")
        return a if cc else b
    return r_ite(c, to_i(a), to_i(b))


def wrap_scalar(x):
    """raw scalar -> user-visible scalar"""
    if isinstance(x, SFloat):
        return x
    k = kind_of(x)
    if k == "b":
        return sbool(raw(x))
    if k == "i":
        return sint(raw(x))
    if k == "f":
        return to_f(x)
    return x


# ---------------------------------------------------------------------------------------
# shapes


def dim_eq(a, b):
    """raw bool: dims equal"""
    return r_cmp("==", raw(a), raw(b))


def same_dim(a, b):
    a, b = raw(a), raw(b)
    if isinstance(a, int) and isinstance(b, int):
        return a == b
    if is_z3(a) and is_z3(b) and a.eq(b):
        return True
    return None  # unknown


def _require_same_dim(a, b, what):
    s = same_dim(a, b)
    if s is True:
        return
    if s is False:
        raise ValueError("shape mismatch in %s: %r vs %r" % (what, a, b))
    ctx().safety("shape:" + what, dim_eq(a, b))


def shape_prod(shape):
    r = 1
    for d in shape:
        r = core._num_op("*", r, raw(d))
    return r


def wrap_index(i, n, what="index"):
    """python negative-index wrap of raw int i against axis length n + bounds obligation"""
    i, n = raw(i), raw(n)
    if isinstance(i, int) and isinstance(n, int):
        if not (-n <= i < n):
            raise IndexError("index %d out of bounds for axis of size %d" % (i, n))
        return i + n if i < 0 else i
    if isinstance(i, int):
        if i >= 0:
            ctx().safety(what, r_cmp("<", i, n))
            return i
        ctx().safety(what, r_cmp("<=", -i, n))
        return core._num_op("+", n, i)
    c = ctx()
    c.safety(what, b_and(r_cmp(">=", i, core._num_op("-", 0, n)), r_cmp("<", i, n)))
    # most symbolic indices are provably >= 0; avoid the ite when so
    if _known_nonneg(i):
        return i
    return z3.If(zi(i) < 0, zi(i) + zi(n), zi(i))


def _known_nonneg(i):
    c = ctx()
    for v, cond in c.binders:
        if is_z3(i) and i.eq(v):
            return True
    nn = getattr(c, "nonneg_ids", None)
    return bool(nn) and is_z3(i) and i.get_id() in nn


# ---------------------------------------------------------------------------------------
# tensor


class _FlagsFwd:
    pass


class STensor:
    __array_priority__ = 1000

    def __init__(self, shape, elem, kind="f"):
        self.shape = tuple(sint(raw(d)) for d in shape)
        self._elem = elem
        self.kind = kind
        self.flags = _Flags()

    # raw shape helpers
    @property
    def rshape(self):
        return tuple(raw(d) for d in self.shape)

    @property
    def ndim(self):
        return len(self.shape)

    @property
    def size(self):
        return sint(shape_prod(self.rshape))

    @property
    def dtype(self):
        return {"f": float, "i": int, "b": bool, "o": object}[self.kind]

    def elem(self, *idx):
        if len(idx) != self.ndim:
            raise OutOfReach("elem arity")
        return self._elem(*[raw(i) for i in idx])

    def __len__(self):
        if not self.shape:
            raise TypeError("len() of unsized object")
        return SInt(self.rshape[0]).__index__()

    def slen(self):
        return self.shape[0]

    def __iter__(self):
        n = self.rshape[0]
        if not isinstance(n, int):
            raise OutOfReach("iteration over tensor with symbolic length")
        for i in range(n):
            yield self[i]

    def at(self, k):
        """k-th item along axis 0 (symbolic k allowed, no bounds obligation)"""
        k = raw(k)
        if self.ndim == 1:
            return wrap_scalar(self._elem(k))
        return STensor(self.rshape[1:], lambda *idx: self._elem(k, *idx), self.kind)

    def __bool__(self):
        if self.ndim == 0:
            return bool(wrap_scalar(self._elem()))
        raise ValueError("truth value of an array is ambiguous")

    def __repr__(self):
        return "STensor(shape=%s, kind=%s)" % (self.shape, self.kind)

    # -- structural
    @property
    def T(self):
        if self.ndim < 2:
            return self
        sh = self.rshape[::-1]
        return STensor(sh, lambda *idx: self._elem(*idx[::-1]), self.kind)

    def transpose(self, *axes):
        if not axes:
            return self.T
        raise OutOfReach("transpose with axes")

    def astype(self, t):
        if t in ("int64", int, "int"):
            if self.kind == "i":
                return self
            raise OutOfReach("astype(int) of float tensor (truncation)")
        if t in (float, "float64", "float"):
            e = self._elem  # a copy: later in-place writes into `self` must not show through
            return STensor(self.rshape, lambda *idx: to_f(e(*idx)), "f")
        raise OutOfReach("astype %r" % (t,))

    def copy(self):
        if isinstance(self, MaskedAxisTensor):
            return self
        return STensor(self.rshape, self._elem, self.kind)

    def flatten(self):
        if self.ndim == 1:
            return self
        if self.ndim == 0:
            return STensor((1,), lambda i: self._elem(), self.kind)
        raise OutOfReach("flatten of n-d tensor")

    def ravel(self):
        return self.flatten()

    def squeeze(self, axis=None):
        return squeeze(self, axis)

    def mean(self, axis=None):
        return mean(self, axis)

    def min(self, axis=None):
        return np_min(self, axis)

    def max(self, axis=None):
        return np_max(self, axis)

    def any(self, axis=None):
        return np_any(self, axis)

    def all(self, axis=None):
        return np_all(self, axis)

    def __getattr__(self, name):
        # only reached for names this model does not provide
        if name.startswith("_") or name in ("elem_kind", "nonneg", "in_range_of", "name", "orig_n", "maxis", "mask_fn", "count"):
            raise AttributeError(name)
        raise OutOfReach("ndarray.%s is not modelled by the facade" % name)

    def tolist(self):
        n = self.rshape
        if not all(isinstance(d, int) for d in n):
            raise OutOfReach("tolist of symbolic-shaped tensor")
        if self.ndim == 1:
            return [wrap_scalar(self._elem(i)) for i in range(n[0])]
        return [self[i].tolist() for i in range(n[0])]

    def reshape(self, *shape):
        if len(shape) == 1 and isinstance(shape[0], (tuple, list)):
            shape = tuple(shape[0])
        shape = tuple(raw(d) for d in shape)
        src = self.rshape
        # identity
        if len(shape) == len(src) and all(same_dim(a, b) is True for a, b in zip(shape, src)):
            return self
        minus = [i for i, d in enumerate(shape) if isinstance(d, int) and d == -1]
        # empty -> empty
        if any(isinstance(d, int) and d == 0 for d in src) and any(
            isinstance(d, int) and d == 0 for d in shape
        ):
            return STensor(shape, _raise_empty, self.kind)
        # drop / add unit axes only
        def core_dims(sh):
            return [d for d in sh if not (isinstance(d, int) and d == 1)]

        if minus:
            if len(minus) > 1:
                raise ValueError("only one -1")
            known = [d for i, d in enumerate(shape) if i != minus[0]]
            if all(isinstance(d, int) and d == 1 for d in known):
                total = shape_prod(src)
                shape = tuple(total if i == minus[0] else d for i, d in enumerate(shape))
            else:
                raise OutOfReach("reshape with -1 and non-unit dims")
        a, b = core_dims(src), core_dims(shape)
        if len(a) <= 1 and len(b) <= 1 and len(a) == len(b) == 1 and len(src) >= 1:
            # 1 non-unit axis (or vector): only unit axes move
            _require_same_dim(a[0], b[0], "reshape")
            spos = [i for i, d in enumerate(src) if not (isinstance(d, int) and d == 1)][0]
            dpos = [i for i, d in enumerate(shape) if not (isinstance(d, int) and d == 1)][0]

            def elem(*idx):
                full = [0] * len(src)
                full[spos] = idx[dpos]
                return self._elem(*full)

            return STensor(shape, elem, self.kind)
        if len(a) == len(b) and all(same_dim(x, y) is not False for x, y in zip(a, b)):
            for x, y in zip(a, b):
                _require_same_dim(x, y, "reshape")
            spos = [i for i, d in enumerate(src) if not (isinstance(d, int) and d == 1)]
            dpos = [i for i, d in enumerate(shape) if not (isinstance(d, int) and d == 1)]

            def elem(*idx):
                full = [0] * len(src)
                for s_, d_ in zip(spos, dpos):
                    full[s_] = idx[d_]
                return self._elem(*full)

            return STensor(shape, elem, self.kind)
        if not a and not b:
            return STensor(shape, lambda *idx: self._elem(*([0] * len(src))), self.kind)
        # symbolic dims that may be 1: a vector (n,) reshaped to (n, 1) etc.
        if len(src) == 1 and len(shape) == 2:
            if isinstance(shape[1], int) and shape[1] == 1:
                _require_same_dim(src[0], shape[0], "reshape")
                return STensor(shape, lambda i, j: self._elem(i), self.kind)
            if isinstance(shape[0], int) and shape[0] == 1:
                _require_same_dim(src[0], shape[1], "reshape")
                return STensor(shape, lambda i, j: self._elem(j), self.kind)
        fam = getattr(self, "_family2", None)
        if fam is not None and len(shape) == 2:
            return fam(shape)
        if len(src) == 1 and len(shape) >= 2:
            # A-NP reshape contract (C order): out[i0..ik] == flat[sum_d i_d * stride_d]
            ctx().safety("reshape-size", r_cmp("==", src[0], shape_prod(shape)))
            strides = []
            acc = 1
            for d in reversed(shape):
                strides.append(acc)
                acc = core._num_op("*", acc, d)
            strides = strides[::-1]

            def elem(*idx):
                flat = 0
                for i, st in zip(idx, strides):
                    flat = core._num_op("+", flat, core._num_op("*", i, st))
                return self._elem(flat)

            return STensor(shape, elem, self.kind)
        if all(isinstance(d, int) for d in src) and all(isinstance(d, int) for d in shape):
            return _concrete_reshape(self, shape)
        raise OutOfReach("reshape %s -> %s" % (src, shape))

    def take(self, indices, axis=None):
        if axis is None:
            raise OutOfReach("take without axis")
        key = [slice(None)] * self.ndim
        key[axis] = indices
        return self[tuple(key)]

    def sum(self, axis=None, keepdims=False, dtype=None, out=None):
        return np_sum(self, axis=axis, keepdims=keepdims, out=out)

    def __matmul__(self, other):
        raise OutOfReach("matrix product is not modelled by the facade")

    def __rmatmul__(self, other):
        raise OutOfReach("matrix product is not modelled by the facade")

    # -- indexing
    def __getitem__(self, key):
        return _getitem(self, key)

    def __setitem__(self, key, value):
        """in-place assignment of a scalar, numpy semantics for the index forms the package
        uses: a *tuple* key is a multi-dimensional index (one component per axis: int,
        full slice, or a sequence / 1-D tensor of ints = fancy index); more components than
        axes raise IndexError; NaN into an integer array raises ValueError."""
        if isinstance(self, MaskedAxisTensor):
            raise OutOfReach("in-place assignment into masked tensor")
        if not isinstance(key, tuple):
            key = (key,)
        if len(key) > self.ndim:
            raise IndexError(
                "too many indices for array: array is %d-dimensional, but %d were indexed" % (self.ndim, len(key))
            )
        key = key + (slice(None),) * (self.ndim - len(key))
        matchers = []
        for comp in key:
            if isinstance(comp, slice):
                if comp != slice(None):
                    raise OutOfReach("in-place assignment through a partial slice")
                matchers.append(None)
                continue
            if isinstance(comp, STensor):
                if comp.ndim != 1 or not isinstance(comp.rshape[0], int) or comp.kind != "i":
                    raise OutOfReach("in-place assignment through a symbolic-length index array")
                comp = [comp._elem(k) for k in range(comp.rshape[0])]
            if isinstance(comp, (tuple, list)):
                matchers.append([to_i(c) for c in comp])
            else:
                matchers.append([to_i(comp)])
        v = _unnp(raw(value)) if not isinstance(value, SFloat) else value
        if isinstance(v, STensor) or isinstance(value, (tuple, list)):
            raise OutOfReach("in-place assignment of a non-scalar")
        vk = kind_of(v)
        if self.kind == "i" and vk == "f":
            fv = to_f(v)
            if core._bconst(fv.u) is True:
                raise ValueError("cannot convert float NaN to integer")
            raise OutOfReach("float assigned into integer tensor")
        if self.kind == "f":
            v = to_f(v)
        old = self._elem
        n_dims = [self.rshape[d] for d in range(self.ndim)]

        def elem(*idx):
            conds = []
            for d, m in enumerate(matchers):
                if m is None:
                    continue
                # negative positions wrap like numpy
                alts = [b_or(zi(idx[d]) == zi(c), zi(idx[d]) == core._num_op("+", zi(c), n_dims[d])) for c in m]
                conds.append(b_or(*alts) if alts else False)
            hit = b_and(*conds) if conds else True
            return sc_ite(hit, v, old(*idx))

        self._elem = elem

    # -- arithmetic
    def _ew(self, o, fn, kind=None):
        return elementwise(fn, self, o, kind=kind)

    def __add__(self, o):
        return elementwise2("+", self, o)

    def __radd__(self, o):
        return elementwise2("+", o, self)

    def __sub__(self, o):
        return elementwise2("-", self, o)

    def __rsub__(self, o):
        return elementwise2("-", o, self)

    def __mul__(self, o):
        return elementwise2("*", self, o)

    def __rmul__(self, o):
        return elementwise2("*", o, self)

    def __truediv__(self, o):
        return elementwise2("/", self, o)

    def __rtruediv__(self, o):
        return elementwise2("/", o, self)

    def __neg__(self):
        return elementwise2("-", 0, self)

    def __pow__(self, p):
        return power(self, p)

    def __abs__(self):
        return abs_(self)

    def _cmp(self, o, op):
        return elementwise_cmp(op, self, o)

    def __lt__(self, o):
        return self._cmp(o, "<")

    def __le__(self, o):
        return self._cmp(o, "<=")

    def __gt__(self, o):
        return self._cmp(o, ">")

    def __ge__(self, o):
        return self._cmp(o, ">=")

    def __eq__(self, o):
        return self._cmp(o, "==")

    def __ne__(self, o):
        return self._cmp(o, "!=")

    __hash__ = None

    def __invert__(self):
        return STensor(self.rshape, lambda *idx: b_not(raw(self._elem(*idx))), "b")

    def __and__(self, o):
        return elementwise(lambda a, b: b_and(raw(a), raw(b)), self, o, kind="b")

    def __or__(self, o):
        return elementwise(lambda a, b: b_or(raw(a), raw(b)), self, o, kind="b")

    def argsort(self):
        raise OutOfReach("argsort")


ndarray = STensor


class _Flags:
    """ndarray.flags stand-in (symbolic tensors are immutable: __setitem__ is rejected)"""

    writeable = True


class MaskedAxisTensor(STensor):
    """Result of boolean-mask indexing: one axis is 'compressed' by a mask.

    The elem function is still indexed by the *original* position along that axis; the
    only operations allowed are elementwise ones against compatible operands and
    reductions over the masked axis (which become guarded sums).
    """

    def __init__(self, shape, elem, kind, maxis, mask_fn, count, orig_n):
        STensor.__init__(self, shape, elem, kind)
        self.maxis = maxis
        self.mask_fn = mask_fn  # raw int -> raw bool
        self.count = count
        self.orig_n = orig_n

    @property
    def T(self):
        if self.ndim != 2:
            return self
        sh = self.rshape[::-1]
        return MaskedAxisTensor(
            sh,
            lambda *idx: self._elem(*idx[::-1]),
            self.kind,
            1 - self.maxis,
            self.mask_fn,
            self.count,
            self.orig_n,
        )


def _concrete_reshape(t, shape):
    src = t.rshape
    total = 1
    for d in src:
        total *= d
    tot2 = 1
    for d in shape:
        tot2 *= d
    if total != tot2:
        raise ValueError("cannot reshape array of size %d into shape %s" % (total, shape))

    def unravel(flat, sh):
        idx = []
        for d in reversed(sh):
            idx.append(flat % d if d else 0)
            flat //= d if d else 1
        return tuple(reversed(idx))

    def elem(*idx):
        if not all(isinstance(i, int) for i in idx):
            raise OutOfReach("symbolic index into concretely reshaped tensor")
        flat = 0
        for i, d in zip(idx, shape):
            flat = flat * d + i
        return t._elem(*unravel(flat, src))

    return STensor(shape, elem, t.kind)


# ---------------------------------------------------------------------------------------
# symbolic sequences


class SSeq:
    """Symbolic sequence: length (raw int) + at(k)."""

    def __init__(self, n, at, label="seq"):
        self.n = raw(n)
        self._at = at
        self.label = label

    def slen(self):
        return sint(self.n)

    def __len__(self):
        return SInt(self.n).__index__()

    def at(self, k):
        return self._at(raw(k))

    def __getitem__(self, k):
        if isinstance(k, slice):
            raise OutOfReach("slice of symbolic sequence")
        k = raw(k)
        k = wrap_index(k, self.n, "seq-index:" + self.label)
        return self._at(k)

    def __iter__(self):
        if isinstance(self.n, int):
            return iter([self._at(i) for i in range(self.n)])
        raise OutOfReach("python iteration over symbolic sequence %s" % self.label)

    def __bool__(self):
        return bool(sbool(r_cmp(">", self.n, 0)))

    def __add__(self, other):
        """tuple/list concatenation"""
        if isinstance(other, (list, tuple)):
            if len(other) == 0:
                return self
            vals = list(other)
            other = SSeq(len(vals), lambda k: vals[k] if isinstance(k, int) else _list_elem([_rawsc(v) for v in vals], "o")(k), "lit")
        if not isinstance(other, SSeq):
            return NotImplemented
        n1, a, b = self.n, self, other

        def at(k):
            if isinstance(k, int) and isinstance(n1, int):
                return a.at(k) if k < n1 else b.at(k - n1)
            return wrap_scalar(sc_ite(r_cmp("<", k, n1), _rawsc(a.at(k)), _rawsc(b.at(core._num_op("-", k, n1)))))

        return SSeq(core._num_op("+", n1, other.n), at, "concat")

    def __radd__(self, other):
        if isinstance(other, (list, tuple)):
            if len(other) == 0:
                return self
            vals = list(other)
            o = SSeq(len(vals), lambda k: vals[k] if isinstance(k, int) else _list_elem([_rawsc(v) for v in vals], "o")(k), "lit")
            return o.__add__(self)
        return NotImplemented


class SIdx(SSeq):
    """Symbolic sequence of raw ints (index list), e.g. addend_idxs.  `.at` is raw
    (engine side); iteration / subscripting hand out wrapped SInt values (user side)."""

    def as_tensor(self):
        return STensor((self.n,), lambda k: self._at(k), "i")

    def __getitem__(self, k):
        return sint(SSeq.__getitem__(self, k))

    def __iter__(self):
        if isinstance(self.n, int):
            return iter([sint(self._at(i)) for i in range(self.n)])
        raise OutOfReach("python iteration over symbolic index list %s" % self.label)

    @property
    def shape(self):
        return (sint(self.n),)

    @property
    def size(self):
        return sint(self.n)


class SFamily(SSeq):
    """Result of a comprehension over symbolic sequences: value is expressed in terms
    of binder vars `vars` (z3 Int consts) ranging over `ranges`; flat length = product."""

    def __init__(self, vars_, ranges, value, label="family"):
        self.vars = list(vars_)
        self.ranges = [raw(r) for r in ranges]
        self.value = value
        n = shape_prod(self.ranges)
        SSeq.__init__(self, n, self._flat_at, label)

    def inst(self, *idx):
        subs = [(v, zi(raw(i))) for v, i in zip(self.vars, idx)]
        return subst_value(self.value, subs)

    def _flat_at(self, k):
        if len(self.vars) == 1:
            return self.inst(k)
        raise OutOfReach("flat index into nested family")


def subst_value(val, subs):
    """substitute z3 consts in a symbolic value (SFloat / raw / STensor / tuple / list)"""
    if isinstance(val, SFloat):
        u = val.u if isinstance(val.u, bool) else z3.substitute(val.u, *subs)
        v = z3.substitute(val.v, *subs) if is_z3(val.v) else val.v
        return SFloat(u, v)
    if isinstance(val, SInt):
        return sint(z3.substitute(val.e, *subs)) if is_z3(val.e) else val
    if isinstance(val, SBool):
        return sbool(z3.substitute(val.e, *subs)) if is_z3(val.e) else val
    if is_z3(val):
        return z3.substitute(val, *subs)
    if isinstance(val, MaskedAxisTensor):
        raise OutOfReach("family of masked tensors")
    if isinstance(val, STensor):
        sh = tuple(subst_value(d, subs) for d in val.rshape)
        return STensor(sh, lambda *idx: subst_value(val._elem(*idx), subs), val.kind)
    if isinstance(val, tuple):
        return tuple(subst_value(x, subs) for x in val)
    if isinstance(val, list):
        return [subst_value(x, subs) for x in val]
    if isinstance(val, (int, float, str, type(None), bool, Fraction)):
        return val
    if hasattr(val, "__pvc_subst__"):
        return val.__pvc_subst__(subs)
    raise OutOfReach("cannot substitute in %r" % (type(val),))


def merge_values(pairs):
    """pairs: list of (raw bool cond, value); conds are exhaustive & exclusive. -> value"""
    if len(pairs) == 1:
        return pairs[0][1]
    (c0, v0) = pairs[0]
    rest = merge_values(pairs[1:])
    return _merge2(c0, v0, rest)


def _merge2(c, a, b):
    if isinstance(a, STensor) or isinstance(b, STensor):
        if not (isinstance(a, STensor) and isinstance(b, STensor)) or a.ndim != b.ndim:
            raise OutOfReach("merging tensors of different rank")
        sh = []
        for x, y in zip(a.rshape, b.rshape):
            sh.append(x if same_dim(x, y) is True else r_ite(c, x, y))
        kind = a.kind if a.kind == b.kind else "f"
        return STensor(tuple(sh), lambda *idx: sc_ite(c, a._elem(*idx), b._elem(*idx)), kind)
    if isinstance(a, (list, tuple)) and isinstance(b, (list, tuple)):
        if len(a) != len(b):
            raise OutOfReach("merging sequences of different length (symbolic filter)")
        return type(a)(_merge2(c, x, y) for x, y in zip(a, b))
    if a is None and b is None:
        return None
    return wrap_scalar(sc_ite(c, _rawsc(a), _rawsc(b)))


def _rawsc(x):
    x = _unnp(x)
    if isinstance(x, (SInt, SBool)):
        return x.e
    return x


# ---------------------------------------------------------------------------------------
# construction


def _is_seq(x):
    return isinstance(x, (list, tuple))


def asarray(x, dtype=None):
    return array(x, dtype=dtype)


def array(x, dtype=None, copy=None):
    if isinstance(x, STensor):
        return x if dtype is None else x.astype(dtype)
    if isinstance(x, SFamily):
        return _family_to_tensor(x, dtype)
    if isinstance(x, SIdx):
        return x.as_tensor()
    if isinstance(x, SSeq):
        kind = "f" if dtype in (float,) else ("i" if dtype in (int,) else getattr(x, "elem_kind", "i"))
        if kind == "f":
            return STensor((x.n,), lambda k: to_f(_rawsc(x.at(k))), "f")
        return STensor((x.n,), lambda k: _rawsc(x.at(k)), kind)
    try:
        import numpy as _np

        if isinstance(x, _np.ndarray):
            return from_numpy(x)
    except ImportError:  # pragma: no cover
        pass
    if _is_seq(x):
        x = list(x)
        if not x:
            k = "f" if dtype in (None, float) else ("i" if dtype is int else "o")
            return STensor((0,), lambda i: (_ for _ in ()).throw(IndexError("empty")), k)
        if all(isinstance(e, STensor) for e in x):
            return stack(x)
        if any(_is_seq(e) or isinstance(e, STensor) for e in x):
            return stack([array(e, dtype=dtype) for e in x])
        vals = [_rawsc(e) for e in x]
        kinds = set(kind_of(v) for v in vals)
        if dtype in (float, "float64") or "f" in kinds:
            kind = "f"
            vals = [to_f(v if kind_of(v) != "b" else to_i(v)) for v in vals]
        elif "o" in kinds:
            kind = "o"
        elif kinds == {"b"}:
            kind = "b"
        else:
            kind = "i"
            vals = [to_i(v) for v in vals]
        return STensor((len(vals),), _list_elem(vals, kind), kind)
    # scalar
    v = _rawsc(x)
    k = kind_of(v)
    if k == "f":
        v = to_f(v)
    return STensor((), lambda: v, k)


def _list_elem(vals, kind):
    n = len(vals)

    def elem(i):
        if isinstance(i, int):
            return vals[i]
        # symbolic index into concrete list: ite chain
        r = vals[-1]
        for j in range(n - 2, -1, -1):
            r = sc_ite(zi(i) == j, vals[j], r)
        return r

    return elem


def from_numpy(a):
    import numpy as _np

    a = _np.asarray(a)
    kind = {"f": "f", "i": "i", "u": "i", "b": "b"}.get(a.dtype.kind, "o")

    def elem(*idx):
        if all(isinstance(i, int) for i in idx):
            v = a[idx].item() if kind != "o" else a[idx]
            return to_f(v) if kind == "f" else v
        raise OutOfReach("symbolic index into concrete ndarray")

    return STensor(a.shape, elem, kind)


def _raise_empty(*idx):
    raise IndexError("read from an empty array")


def _family_to_tensor(fam, dtype=None):
    val = fam.value
    if val is core.EMPTY:
        t = STensor((fam.n,), _raise_empty, "f")
        if len(fam.vars) == 2:
            r0, r1 = fam.ranges

            def family2e(shape):
                _require_same_dim(shape[0], r0, "reshape-family")
                _require_same_dim(shape[1], r1, "reshape-family")
                return STensor((r0, r1), _raise_empty, "f")

            t._family2 = family2e
        return t
    if len(fam.vars) == 1:
        v0 = fam.vars[0]
        if isinstance(val, STensor):
            for d in val.rshape:
                if is_z3(d) and core._has_const(d, v0):
                    raise OutOfReach("family element shape depends on the index")
            sh = (fam.ranges[0],) + val.rshape
            return STensor(sh, lambda k, *idx: fam.inst(k)._elem(*idx), val.kind)
        sv = _rawsc(val)
        kind = kind_of(sv)
        if kind == "f" or dtype in (float,):
            kind = "f"
        return STensor((fam.ranges[0],), lambda k: _coerce(_rawsc(fam.inst(k)), kind), kind)
    if len(fam.vars) == 2 and not isinstance(val, STensor):
        kind = "f"
        t = STensor((fam.n,), lambda k: (_ for _ in ()).throw(OutOfReach("flat nested family")), kind)

        def family2(shape):
            _require_same_dim(shape[0], fam.ranges[0], "reshape-family")
            _require_same_dim(shape[1], fam.ranges[1], "reshape-family")
            return STensor(
                (fam.ranges[0], fam.ranges[1]),
                lambda i, j: _coerce(_rawsc(fam.inst(i, j)), kind),
                kind,
            )

        t._family2 = family2
        return t
    raise OutOfReach("family to tensor")


def _coerce(v, kind):
    if kind == "f":
        return to_f(v if kind_of(v) != "b" else to_i(v))
    return v


def full(shape, fill_value, dtype=None):
    if not isinstance(shape, (tuple, list)):
        shape = (shape,)
    shape = tuple(raw(d) for d in shape)
    v = _rawsc(fill_value)
    k = kind_of(v)
    if k == "f":
        v = to_f(v)
    return STensor(shape, lambda *idx: v, k)


def zeros(shape, dtype=None):
    return full(shape, 0.0 if dtype in (None, float) else 0)


def ones(shape, dtype=None):
    return full(shape, 1.0 if dtype in (None, float) else 1)


class ObjArray:
    """1-D numpy array of dtype=object with a concrete length, for the one idiom the package
    uses (cubepart._Slice._pairwise_indices): `a = np.empty((n,), dtype=object)`,
    `a[:] = [python objects]`, then len / integer index / iteration.  Every other use is out
    of reach."""

    def __init__(self, n):
        self._n = n
        self._items = [None] * n
        self.shape = (n,)
        self.ndim = 1
        self.dtype = object

    def __len__(self):
        return self._n

    def __setitem__(self, key, value):
        if key != slice(None) or not isinstance(value, list):
            raise OutOfReach("object array: assignment other than a[:] = list")
        if len(value) != self._n:
            raise ValueError(
                "could not broadcast input array from shape (%d,) into shape (%d,)" % (len(value), self._n)
            )
        self._items = list(value)

    def __getitem__(self, key):
        if isinstance(key, int) and not isinstance(key, bool):
            return self._items[key]
        raise OutOfReach("object array: index other than a concrete int")

    def __iter__(self):
        return iter(self._items)

    def __getattr__(self, name):
        raise OutOfReach("object array attribute %s" % name)


def empty(shape, dtype=None):
    # contents unspecified: model as a fresh uninterpreted value per cell
    if not isinstance(shape, (tuple, list)):
        shape = (shape,)
    shape = tuple(raw(d) for d in shape)
    if dtype is object:
        if len(shape) == 1 and isinstance(shape[0], int):
            return ObjArray(shape[0])
        raise OutOfReach("np.empty(dtype=object) of symbolic or multi-dimensional shape")
    nm = ctx().fresh("empty")
    f = z3.Function(nm, *([z3.IntSort()] * len(shape) + [z3.RealSort()]))
    if not shape:
        c0 = z3.Real(nm)
        return STensor((), lambda: SFloat(False, c0), "f")
    return STensor(shape, lambda *idx: SFloat(False, f(*[zi(i) for i in idx])), "f")


def broadcast_shapes(sa, sb, what="broadcast"):
    """returns (shape, mapper_a, mapper_b) for right-aligned numpy broadcasting"""
    na, nb = len(sa), len(sb)
    n = max(na, nb)
    out, ma, mb = [], [], []
    for p in range(n):
        ia, ib = p - (n - na), p - (n - nb)
        da = sa[ia] if ia >= 0 else None
        db = sb[ib] if ib >= 0 else None
        if da is None:
            out.append(db)
            ma.append(None)
            mb.append("id")
        elif db is None:
            out.append(da)
            ma.append("id")
            mb.append(None)
        else:
            s = same_dim(da, db)
            if s is True:
                out.append(da)
                ma.append("id")
                mb.append("id")
            elif isinstance(da, int) and da == 1:
                out.append(db)
                ma.append("zero")
                mb.append("id")
            elif isinstance(db, int) and db == 1:
                out.append(da)
                ma.append("id")
                mb.append("zero")
            elif s is False:
                raise ValueError(
                    "operands could not be broadcast together with shapes %s %s" % (sa, sb)
                )
            else:
                _require_same_dim(da, db, what)
                out.append(da)
                ma.append("id")
                mb.append("id")
    return tuple(out), ma, mb


def _apply_map(m, idx):
    return [0 if how == "zero" else i for how, i in zip(m, idx) if how is not None]


def _as_tensor_or_scalar(x):
    if isinstance(x, STensor):
        return x
    if isinstance(x, (SSeq,)) or _is_seq(x):
        return array(x)
    try:
        import numpy as _np

        if isinstance(x, _np.ndarray):
            return from_numpy(x)
    except ImportError:  # pragma: no cover
        pass
    return None


def elementwise(fn, a, b, kind=None):
    ta, tb = _as_tensor_or_scalar(a), _as_tensor_or_scalar(b)
    if ta is None and tb is None:
        return wrap_scalar(fn(_rawsc(a), _rawsc(b)))
    if isinstance(ta, MaskedAxisTensor) or isinstance(tb, MaskedAxisTensor):
        return _masked_elementwise(fn, ta if ta is not None else a, tb if tb is not None else b, kind)
    if ta is None:
        sa = _rawsc(a)
        k = kind or _res_kind(kind_of(sa), tb.kind)
        return STensor(tb.rshape, lambda *idx: fn(sa, tb._elem(*idx)), k)
    if tb is None:
        sb_ = _rawsc(b)
        k = kind or _res_kind(ta.kind, kind_of(sb_))
        return STensor(ta.rshape, lambda *idx: fn(ta._elem(*idx), sb_), k)
    shape, ma, mb = broadcast_shapes(ta.rshape, tb.rshape)
    k = kind or _res_kind(ta.kind, tb.kind)
    return STensor(
        shape,
        lambda *idx: fn(ta._elem(*_apply_map(ma, idx)), tb._elem(*_apply_map(mb, idx))),
        k,
    )


def _masked_elementwise(fn, a, b, kind):
    m = a if isinstance(a, MaskedAxisTensor) else b
    o = b if m is a else a
    swap = m is b
    if isinstance(o, MaskedAxisTensor):
        if o.ndim != m.ndim or o.maxis != m.maxis:
            raise OutOfReach("masked tensors with different layout")
        f2 = (lambda x, y: fn(y, x)) if swap else fn
        return MaskedAxisTensor(
            m.rshape,
            lambda *idx: f2(m._elem(*idx), o._elem(*idx)),
            kind or _res_kind(m.kind, o.kind),
            m.maxis,
            m.mask_fn,
            m.count,
            m.orig_n,
        )
    if isinstance(o, STensor):
        # broadcast plain tensor against masked one: unit axes or leading-missing axes only,
        # and never along the masked axis unless it has the same compressed length (rejected)
        osh = o.rshape
        n, no = m.ndim, len(osh)
        mp = []
        for p in range(n):
            io = p - (n - no)
            if io < 0:
                mp.append(None)
            elif isinstance(osh[io], int) and osh[io] == 1:
                mp.append("zero")
            else:
                if p == m.maxis:
                    raise OutOfReach("plain tensor along masked axis")
                _require_same_dim(osh[io], m.rshape[p], "masked-broadcast")
                mp.append("id")
        f2 = (lambda x, y: fn(y, x)) if swap else fn
        return MaskedAxisTensor(
            m.rshape,
            lambda *idx: f2(m._elem(*idx), o._elem(*_apply_map(mp, idx))),
            kind or _res_kind(m.kind, o.kind),
            m.maxis,
            m.mask_fn,
            m.count,
            m.orig_n,
        )
    so = _rawsc(o)
    f2 = (lambda x, y: fn(y, x)) if swap else fn
    return MaskedAxisTensor(
        m.rshape,
        lambda *idx: f2(m._elem(*idx), so),
        kind or _res_kind(m.kind, kind_of(so)),
        m.maxis,
        m.mask_fn,
        m.count,
        m.orig_n,
    )


def _res_kind(ka, kb):
    if "o" in (ka, kb):
        return "o"
    if "f" in (ka, kb):
        return "f"
    if ka == "b" and kb == "b":
        return "i"
    return "i"


def elementwise2(op, a, b):
    kind = "f" if op == "/" else None
    return elementwise(lambda x, y: sc_bin(op, x, y), a, b, kind=kind)


def elementwise_cmp(op, a, b):
    return elementwise(lambda x, y: sc_cmp(op, x, y), a, b, kind="b")


def divide(a, b):
    return elementwise2("/", a, b)


def power(a, p):
    p = _rawsc(p)

    def f(x, _):
        return to_f(x) ** p

    if isinstance(a, STensor):
        return elementwise(f, a, 0, kind="f")
    return to_f(_rawsc(a)) ** p


def abs_(a):
    def f(x, _):
        if kind_of(x) == "f":
            return abs(to_f(x))
        x = to_i(x)
        if isinstance(x, int):
            return x if x >= 0 else -x
        return z3.If(x >= 0, x, -x)

    if isinstance(a, STensor):
        return elementwise(f, a, 0)
    return wrap_scalar(f(_rawsc(a), 0))



_SQRT = z3.Function("sqrt", z3.RealSort(), z3.RealSort())


def _sqrt_scalar(x):
    x = to_f(x)
    if core.is_concrete_num(x.v) and x.u is not True:
        f = Fraction(repr(x.v)) if isinstance(x.v, float) else Fraction(x.v)
        if f < 0:
            return SFloat(True, 0)
        r = math.isqrt(f.numerator * f.denominator)
        if r * r == f.numerator * f.denominator:
            return SFloat(x.u, Fraction(r, f.denominator))
    if x.u is True:
        return SFloat(True, 0)
    # canonical quotient-of-polynomials form of the argument (equal to it wherever the
    # value is defined, i.e. all divisors non-zero) so that equal arguments give equal terms
    xv = sg.canon_rat(zr(x.v))
    s = _SQRT(xv)
    c = ctx()
    key = ("sqrt", xv.get_id())
    seen = c.__dict__.setdefault("_fn_seen", set())
    if key not in seen:
        seen.add(key)
        c.fn_axioms.append(z3.Implies(xv >= 0, z3.And(s >= 0, s * s == xv)))
    return SFloat(b_or(x.u, xv < 0), s)


def sqrt(a):
    if isinstance(a, STensor):
        return elementwise(lambda x, _: _sqrt_scalar(x), a, 0, kind="f")
    return _sqrt_scalar(_rawsc(a))


def isnan(a):
    if isinstance(a, STensor):
        if a.kind == "o":
            raise TypeError("isnan on object array")
        return elementwise(lambda x, _: to_f(x).u if kind_of(x) == "f" else False, a, 0, kind="b")
    a = _rawsc(a)
    if kind_of(a) == "o":
        raise TypeError("ufunc 'isnan' not supported for the input types")
    if kind_of(a) != "f":
        return False
    return sbool(to_f(a).u)


def nan_to_num(a, copy=True, nan=0.0, posinf=None, neginf=None):
    if copy is not True:
        raise OutOfReach("nan_to_num(copy=False) writes in place")
    if posinf is not None or neginf is not None:
        raise OutOfReach("nan_to_num with posinf / neginf (NaN and Inf are one flag in this model)")
    fill = zr(_rawsc(nan)) if not isinstance(nan, (int, float)) else nan

    def f(x, _):
        x = to_f(x)
        return SFloat(False, r_ite(x.u, fill, x.v))

    if isinstance(a, STensor):
        return elementwise(f, a, 0, kind="f")
    return f(_rawsc(a), 0)


def where(cond, x=None, y=None):
    if x is None and y is None:
        t = _as_tensor_or_scalar(cond)
        if t is not None and t.ndim == 1 and isinstance(t.rshape[0], int) and t.rshape[0] <= 8:
            # bounded: positions of the true entries, one path per truth assignment
            pos = [i for i in range(t.rshape[0]) if bool(sbool(_truthy(t._elem(i))))]
            return (STensor((len(pos),), _list_elem(pos, "i") if pos else _raise_empty, "i"),)
        raise OutOfReach("np.where(cond) index form")
    return _where3(cond, x, y)


def _where3(cond, x, y):
    tx = elementwise(lambda a, b: (a, b), x, y, kind="o")
    if not isinstance(tx, STensor):
        a, b = tx
        return elementwise(lambda c, _: sc_ite(raw(c), a, b), cond, 0, kind=_res_kind(kind_of(a), kind_of(b)))
    res = elementwise(lambda c, ab: sc_ite(raw(c), ab[0], ab[1]), cond, tx, kind="f")
    return res


def logical_and(a, b):
    return elementwise(lambda x, y: b_and(raw(x), raw(y)), a, b, kind="b")


def logical_or(a, b):
    return elementwise(lambda x, y: b_or(raw(x), raw(y)), a, b, kind="b")


def logical_not(a):
    return elementwise(lambda x, _: b_not(raw(x)), a, 0, kind="b")


def broadcast_to(a, shape):
    if not isinstance(shape, (tuple, list)):
        shape = (shape,)
    shape = tuple(raw(d) for d in shape)
    t = _as_tensor_or_scalar(a)
    if t is None:
        v = _rawsc(a)
        k = kind_of(v)
        if k == "f":
            v = to_f(v)
        return STensor(shape, lambda *idx: v, k)
    if isinstance(t, MaskedAxisTensor):
        # a masked vector broadcast along new leading axes (the masked axis stays last)
        if t.ndim == 1 and len(shape) == 2:
            _require_same_dim(shape[1], t.count, "broadcast_to-masked")
            return MaskedAxisTensor(
                (shape[0], t.count), lambda i, k: t._elem(k), t.kind, 1, t.mask_fn, t.count, t.orig_n
            )
        raise OutOfReach("broadcast_to of masked tensor")
    src = t.rshape
    if len(src) > len(shape):
        raise ValueError("broadcast_to: input has more dimensions than target")
    n, ns = len(shape), len(src)
    mp = []
    for p in range(n):
        i = p - (n - ns)
        if i < 0:
            mp.append(None)
            continue
        s = same_dim(src[i], shape[p])
        if s is True:
            mp.append("id")
        elif isinstance(src[i], int) and src[i] == 1:
            mp.append("zero")
        elif s is False:
            raise ValueError(
                "operands could not be broadcast together with remapped shapes "
                "[original->remapped]: %s -> %s" % (src, shape)
            )
        else:
            _require_same_dim(src[i], shape[p], "broadcast_to")
            mp.append("id")
    return STensor(shape, lambda *idx: t._elem(*_apply_map(mp, idx)), t.kind)


def repeat(a, repeats, axis=None):
    # a one-element repeats sequence (e.g. `arr.shape` of a 1-D array) broadcasts like a scalar
    if isinstance(repeats, (tuple, list)) and len(repeats) == 1:
        repeats = repeats[0]
    repeats = raw(repeats)
    t = _as_tensor_or_scalar(a)
    if t is None:
        v = _rawsc(a)
        k = kind_of(v)
        if k == "f":
            v = to_f(v)
        return STensor((repeats,), lambda i: v, k)
    if t.ndim == 0:
        return STensor((repeats,), lambda i: t._elem(), t.kind)
    if t.ndim == 1 and isinstance(t.rshape[0], int) and t.rshape[0] == 1:
        return STensor((repeats,), lambda i: t._elem(0), t.kind)
    if t.ndim == 1 and is_int_raw(repeats):
        n = t.rshape[0]
        if isinstance(repeats, int) and repeats > 0:
            return STensor(
                (core._num_op("*", n, repeats),),
                lambda i: t._elem(i // repeats if isinstance(i, int) else zi(i) / repeats),
                t.kind,
            )
    raise OutOfReach("np.repeat general form")


def tile(a, reps):
    t = _as_tensor_or_scalar(a)
    if t is None or t.ndim == 0:
        # np.tile(scalar, reps) is an array of shape reps filled with the scalar
        shape = tuple(reps) if isinstance(reps, (tuple, list)) else (reps,)
        return full(shape, a if t is None else wrap_scalar(t._elem()))
    reps = tuple(raw(r) for r in (reps if isinstance(reps, (tuple, list)) else (reps,)))
    if len(reps) < t.ndim:
        reps = (1,) * (t.ndim - len(reps)) + reps
    src = (1,) * (len(reps) - t.ndim) + t.rshape
    lead = len(reps) - t.ndim
    shape, how = [], []
    for d, r in zip(src, reps):
        if isinstance(r, int) and r == 1:
            shape.append(d)
            how.append("id")
        elif isinstance(d, int) and d == 1:
            shape.append(r)
            how.append("zero")
        else:
            raise OutOfReach("tile with non-unit repetition of non-unit axis")
    return STensor(
        tuple(shape),
        lambda *idx: t._elem(*[0 if h == "zero" else i for h, i in zip(how, idx)][lead:]),
        t.kind,
    )


# ---------------------------------------------------------------------------------------
# indexing


def ix_(*seqs):
    seqs = [_index_seq(s) for s in seqs]
    n = len(seqs)
    return IxGrid([IxAxis(s, a, n) for a, s in enumerate(seqs)])


class IxAxis:
    """one member of an np.ix_ open mesh: index sequence `seq` broadcast along output axis
    `out_axis` of an `n_out`-dimensional result"""

    def __init__(self, seq, out_axis, n_out):
        self.seq, self.out_axis, self.n_out = seq, out_axis, n_out
        self.n = seq.n
        self.nonneg = getattr(seq, "nonneg", False)
        self.in_range_of = getattr(seq, "in_range_of", None)

    def at(self, k):
        return self.seq.at(k)


class IxGrid(tuple):
    """np.ix_ result: tuple of IxAxis (open mesh)."""

    def __new__(cls, axes):
        return tuple.__new__(cls, axes)


def _index_seq(s):
    """anything usable as a 1-D integer index -> (n_raw, at(k)->raw int) pair as SIdx"""
    if isinstance(s, SIdx):
        return s
    if isinstance(s, STensor):
        if s.ndim != 1:
            raise OutOfReach("n-d index array")
        if s.kind == "b":
            raise OutOfReach("bool mask in index seq")
        return SIdx(s.rshape[0], lambda k: to_i(s._elem(k)), "idxarr")
    if isinstance(s, SSeq):
        return SIdx(s.n, lambda k: to_i(_rawsc(s.at(k))), s.label)
    if _is_seq(s) or isinstance(s, range):
        vals = [to_i(_rawsc(v)) for v in s]
        return SIdx(len(vals), _list_elem(vals, "i"), "list")
    try:
        import numpy as _np

        if isinstance(s, _np.ndarray):
            return _index_seq([int(v) for v in s])
    except ImportError:  # pragma: no cover
        pass
    raise OutOfReach("index sequence from %r" % (type(s),))


def _is_scalar_index(k):
    return isinstance(k, (int, SInt)) or (is_z3(k) and k.sort() == z3.IntSort()) or _np_int(k)


def _np_int(k):
    try:
        import numpy as _np

        return isinstance(k, _np.integer)
    except ImportError:  # pragma: no cover
        return False


def _getitem(t, key):
    if isinstance(key, tuple) and key and builtins_all(isinstance(k, IxAxis) for k in key):
        # (possibly re-ordered) open mesh: source axis p is indexed by key[p], which varies
        # along output axis key[p].out_axis
        if len(key) > t.ndim:
            raise IndexError("too many indices")
        n_out = key[0].n_out
        if sorted(k.out_axis for k in key) != list(range(n_out)) or len(key) != n_out:
            raise OutOfReach("partial open mesh")
        by_out = sorted(key, key=lambda k: k.out_axis)
        shape = tuple(k.n for k in by_out) + t.rshape[len(key):]
        for ax, k in enumerate(key):
            _check_idx_seq(k, t.rshape[ax])
        if builtins_all(k.out_axis == p for p, k in enumerate(key)):
            key = IxGrid(list(key))
        else:
            keys = list(key)

            def elem_perm(*idx):
                src = [
                    (k.at(idx[k.out_axis]) if k.nonneg else _wrap_noob(k.at(idx[k.out_axis]), t.rshape[p]))
                    for p, k in enumerate(keys)
                ] + list(idx[len(keys):])
                return t._elem(*src)

            return STensor(shape, elem_perm, t.kind)
    if isinstance(key, IxGrid):
        if len(key) > t.ndim:
            raise IndexError("too many indices")
        seqs = list(key)
        shape = tuple(s.n for s in seqs) + t.rshape[len(seqs):]
        for ax, s in enumerate(seqs):
            _check_idx_seq(s, t.rshape[ax])

        def elem(*idx):
            src = [
                (seqs[a].at(idx[a]) if getattr(seqs[a], "nonneg", False) else _wrap_noob(seqs[a].at(idx[a]), t.rshape[a]))
                for a in range(len(seqs))
            ] + list(idx[len(seqs):])
            return t._elem(*src)

        return STensor(shape, elem, t.kind)
    if not isinstance(key, tuple):
        key = (key,)
    # boolean mask
    for pos, k in enumerate(key):
        if isinstance(k, STensor) and k.kind == "b":
            return _mask_index(t, key, pos)
    if isinstance(t, MaskedAxisTensor):
        raise OutOfReach("indexing a masked tensor")
    # expand Ellipsis
    if any(k is Ellipsis for k in key):
        n_spec = len([k for k in key if k is not None and k is not Ellipsis])
        i = [j for j, k in enumerate(key) if k is Ellipsis][0]
        key = key[:i] + (slice(None),) * (t.ndim - n_spec) + key[i + 1 :]
    n_spec = len([k for k in key if k is not None])
    if n_spec > t.ndim:
        raise IndexError("too many indices for array")
    key = key + (slice(None),) * (t.ndim - n_spec)
    src = t.rshape
    out_shape = []
    plan = []  # per source axis: ('fix', i) | ('slice', start, outpos) | ('fancy', seq, outpos)
    ax = 0
    n_fancy = 0
    for k in key:
        if k is None:
            out_shape.append(1)
            continue
        n = src[ax]
        if _is_scalar_index(k):
            kk = raw(k)
            if _np_int(kk):
                kk = int(kk)
            plan.append(("fix", wrap_index(kk, n, "index-axis%d" % ax)))
        elif isinstance(k, slice):
            if k.step not in (None, 1):
                raise OutOfReach("slice step")
            start, stop = _slice_bounds(k, n)
            plan.append(("slice", start, len(out_shape)))
            out_shape.append(core._num_op("-", stop, start))
        else:
            s = _index_seq(k)
            _check_idx_seq(s, n)
            n_fancy += 1
            plan.append(("fancy", s, len(out_shape), n))
            out_shape.append(s.n)
        ax += 1
    if n_fancy > 1:
        raise OutOfReach("more than one fancy index (use np.ix_)")

    def elem(*idx):
        srcidx = []
        for p in plan:
            if p[0] == "fix":
                srcidx.append(p[1])
            elif p[0] == "slice":
                srcidx.append(core._num_op("+", p[1], idx[p[2]]))
            else:
                v = p[1].at(idx[p[2]])
                srcidx.append(v if getattr(p[1], "nonneg", False) else _wrap_noob(v, p[3]))
        return t._elem(*srcidx)

    r = STensor(tuple(out_shape), elem, t.kind)
    if not out_shape:
        return wrap_scalar(r._elem())
    return r


def _wrap_noob(v, n):
    if isinstance(v, int):
        if isinstance(n, int):
            return v + n if v < 0 else v
        return v if v >= 0 else core._num_op("+", n, v)
    if getattr(v, "_pvc_nonneg", False) or _known_nonneg(v):
        return v
    return z3.If(zi(v) < 0, zi(v) + zi(n), zi(v))


def _check_idx_seq(s, n):
    """bounds obligation for every element of index sequence s against axis length n"""
    if getattr(s, "in_range_of", None) is not None and same_dim(s.in_range_of, n) is True:
        return
    c = ctx()
    if isinstance(s.n, int):
        for k in range(s.n):
            v = s.at(k)
            if isinstance(v, int) and isinstance(n, int):
                if not (-n <= v < n):
                    raise IndexError("index %d is out of bounds for axis with size %d" % (v, n))
            else:
                c.safety("fancy-index", b_and(r_cmp(">=", v, core._num_op("-", 0, n)), r_cmp("<", v, n)))
        return
    k = sg.new_binder(c, "q")
    c.binders.append((k, z3.And(k >= 0, k < zi(s.n))))
    try:
        v = s.at(k)
        c.safety("fancy-index", b_and(r_cmp(">=", v, core._num_op("-", 0, n)), r_cmp("<", v, n)))
    finally:
        c.binders.pop()


def _slice_bounds(k, n):
    def norm(v, default):
        if v is None:
            return default
        v = raw(v)
        if isinstance(v, int):
            if isinstance(n, int):
                if v < 0:
                    v = max(n + v, 0)
                return min(v, n)
            if v < 0:
                raise OutOfReach("negative slice bound on symbolic axis")
            if v == 0:
                return 0
            # clamp v to n
            return z3.If(zi(n) < v, zi(n), z3.IntVal(v))
        raise OutOfReach("symbolic slice bound")

    start = norm(k.start, 0)
    stop = norm(k.stop, n)
    if isinstance(start, int) and isinstance(stop, int) and stop < start:
        stop = start
    return start, stop


def _mask_index(t, key, pos):
    mask = key[pos]
    rest_ok = all(isinstance(k, slice) and k == slice(None) for j, k in enumerate(key) if j != pos)
    if not rest_ok or mask.ndim != 1:
        raise OutOfReach("boolean mask with other index kinds")
    if isinstance(t, MaskedAxisTensor):
        raise OutOfReach("mask of masked")
    axis = pos
    _require_same_dim(mask.rshape[0], t.rshape[axis], "bool-mask")
    n = t.rshape[axis]
    c = ctx()
    if isinstance(n, int):
        cnt = 0
        for i in range(n):
            cnt = core._num_op("+", cnt, to_i(mask._elem(i)))
    else:
        cnt = getattr(mask, "_count_sym", None)  # one count per mask object
        if cnt is None:
            cnt = z3.Int(c.fresh("masklen"))
            c.assume(cnt >= 0, cnt <= zi(n))
            mask._count_sym = cnt
            # the count is zero exactly when no position satisfies the mask: a witness when
            # positive, and every true position forces count >= 1
            wit = z3.Int(c.fresh("maskwit"))
            c.assume(z3.Implies(cnt > 0, z3.And(wit >= 0, wit < zi(n), zb(raw(mask._elem(wit))))))
            kq = z3.Int(c.fresh("maskk"))
            body = zb(raw(mask._elem(kq)))
            if not z3.is_false(body):
                c.assume(z3.ForAll([kq], z3.Implies(z3.And(kq >= 0, kq < zi(n), body), cnt >= 1)))
    shape = list(t.rshape)
    shape[axis] = cnt
    return MaskedAxisTensor(
        tuple(shape), t._elem, t.kind, axis, lambda i: raw(mask._elem(i)), cnt, n
    )


# ---------------------------------------------------------------------------------------
# reductions


def _sigma_scalar(n, body, nan_skip=False):
    """Sum_{k<n} body(k), body: raw int -> scalar"""
    c = ctx()
    n = raw(n)
    if isinstance(n, int):
        if n > 64:
            raise OutOfReach("large concrete sum")
        acc = None
        for k in range(n):
            v = body(k)
            if nan_skip:
                v = to_f(v)
                v = SFloat(False, r_ite(v.u, 0, v.v))
            acc = v if acc is None else sc_bin("+", acc, v)
        if acc is None:
            return SFloat(False, 0)
        return acc
    k = sg.new_binder(c, "k")
    c.binders.append((k, z3.And(k >= 0, k < zi(n))))
    try:
        v = body(k)
    finally:
        c.binders.pop()
    is_int = kind_of(v) in ("i", "b")
    fv = to_f(v if kind_of(v) != "b" else to_i(v))
    if nan_skip:
        fv = SFloat(False, r_ite(fv.u, 0, fv.v))
    val = sg.multi_sigma([(k, n)], zr(fv.v), c)
    u = _exists(c, k, n, fv.u)
    if is_int and u is False:
        # keep integer-ness out of it: sums of ints are used as reals downstream
        return SFloat(False, val)
    return SFloat(u, val)


_EX = {}


def _exists(c, k, n, u):
    """raw bool: exists k in [0,n): u(k)"""
    cu = core._bconst(u)
    if cu is False:
        return False
    if cu is True:
        return r_cmp(">", n, 0)
    if not core._has_const(u, k):
        return b_and(u, r_cmp(">", n, 0))
    if z3.is_and(u):
        # exists k. (A(k) and c) == c and exists k. A(k)   for binder-free conjuncts c
        free = [a for a in u.children() if not core._has_const(a, k)]
        dep = [a for a in u.children() if core._has_const(a, k)]
        if free:
            return b_and(*(free + [_exists(c, k, n, b_and(*dep))]))
    if z3.is_or(u):
        free = [a for a in u.children() if not core._has_const(a, k)]
        dep = [a for a in u.children() if core._has_const(a, k)]
        if free:
            return b_or(b_and(b_or(*free), r_cmp(">", n, 0)), _exists(c, k, n, b_or(*dep)))
    bset = frozenset([k.get_id()])
    border, params = {}, []
    tmpl = sg._template(u, bset, border, params, {})
    key = tmpl.sexpr() + "|" + ",".join(p.sort().name() for p in params)
    ent = _EX.get(key)
    if ent is None:
        name = "Any%d" % len(_EX)
        fn = z3.Function(name, *([z3.IntSort()] + [p.sort() for p in params] + [z3.BoolSort()]))
        wit = z3.Function(name + "_w", *([z3.IntSort()] + [p.sort() for p in params] + [z3.IntSort()]))
        ent = (fn, wit)
        _EX[key] = ent
    fn, wit = ent
    app = fn(zi(n), *params)
    seen = c.__dict__.setdefault("_fn_seen", set())
    akey = ("any", app.get_id())
    if akey not in seen:
        seen.add(akey)
        w = wit(zi(n), *params)
        # app => u(w) and w in range ;  forall k in range: u(k) => app
        c.fn_axioms.append(
            z3.Implies(app, z3.And(w >= 0, w < zi(n), z3.substitute(u, (k, w))))
        )
        kk = z3.Int(c.fresh("ak"))
        c.fn_axioms.append(
            z3.ForAll([kk], z3.Implies(z3.And(kk >= 0, kk < zi(n), z3.substitute(u, (k, kk))), app))
        )
    return app


def _reduce_axis(t, axis, nan_skip):
    if isinstance(t, MaskedAxisTensor):
        if axis != t.maxis:
            raise OutOfReach("reduction of masked tensor over a non-masked axis")
        n = t.orig_n
        shape = t.rshape[:axis] + t.rshape[axis + 1 :]

        def elem(*idx):
            def body(k):
                full = list(idx[:axis]) + [k] + list(idx[axis:])
                v = to_f(t._elem(*full))
                g = t.mask_fn(k)
                if nan_skip:
                    v = SFloat(False, r_ite(v.u, 0, v.v))
                return SFloat(b_and(g, v.u), r_ite(g, v.v, 0))

            return _sigma_scalar(n, body)

        return STensor(shape, elem, "f")
    n = t.rshape[axis]
    shape = t.rshape[:axis] + t.rshape[axis + 1 :]

    def elem(*idx):
        return _sigma_scalar(
            n, lambda k: t._elem(*(list(idx[:axis]) + [k] + list(idx[axis:]))), nan_skip
        )

    return STensor(shape, elem, "f" if t.kind != "i" else "f")


def _norm_axes(axis, ndim):
    if axis is None:
        return list(range(ndim))
    if isinstance(axis, (tuple, list)):
        axes = [a + ndim if a < 0 else a for a in axis]
    else:
        a = int(axis)
        axes = [a + ndim if a < 0 else a]
    for a in axes:
        if not (0 <= a < ndim):
            raise ValueError("axis %d is out of bounds for array of dimension %d" % (a, ndim))
    return sorted(axes)


def np_sum(a, axis=None, nan_skip=False, keepdims=False, dtype=None, out=None):
    if out is not None:
        raise OutOfReach("sum with out=")
    t = _as_tensor_or_scalar(a)
    if t is None:
        return wrap_scalar(_rawsc(a))
    if t.kind == "o":
        raise OutOfReach("sum of object array")
    axes = _norm_axes(axis, t.ndim)
    r = t
    for ax in reversed(axes):
        r = _reduce_axis(r, ax, nan_skip)
    if keepdims:
        # the reduced axes come back as unit axes
        key = [None if d in axes else slice(None) for d in range(t.ndim)]
        if r.ndim == 0:
            r = STensor((), r._elem, r.kind) if isinstance(r, STensor) else r
            return STensor((1,) * t.ndim, lambda *idx: r._elem(), r.kind)
        return r[tuple(key)]
    if r.ndim == 0 and (axis is None or len(axes) == t.ndim):
        return wrap_scalar(r._elem())
    return r


def nansum(a, axis=None, keepdims=False, dtype=None, out=None):
    return np_sum(a, axis=axis, nan_skip=True, keepdims=keepdims, out=out)


def transpose(a, axes=None):
    t = _as_tensor_or_scalar(a)
    if t is None:
        return a
    if axes is not None and tuple(axes) != tuple(range(t.ndim))[::-1]:
        raise OutOfReach("transpose with axes")
    return t.T


def prod(a):
    if isinstance(a, (tuple, list)):
        return sint(shape_prod([raw(d) for d in a]))
    raise OutOfReach("np.prod of array")


def np_all(a, axis=None):
    if isinstance(a, (tuple, list)):
        conds = [r_cmp("!=", raw(d), 0) if is_int_raw(raw(d)) else zb(raw(d)) for d in a]
        return sbool(b_and(*conds))
    t = _as_tensor_or_scalar(a)
    if t is None:
        return sbool(_truthy(_rawsc(a)))
    if axis is not None:
        return _anyall_axis(t, axis, want_all=True)
    return sbool(_forall_tensor(t))


def np_any(a, axis=None):
    t = _as_tensor_or_scalar(a)
    if t is None:
        return sbool(_truthy(_rawsc(a)))
    if axis is not None:
        return _anyall_axis(t, axis, want_all=False)
    neg = STensor(t.rshape, lambda *idx: b_not(_truthy(t._elem(*idx))), "b")
    return sbool(b_not(_forall_tensor(neg)))


def _anyall_axis(t, axis, want_all):
    """np.any / np.all along one axis: a bool tensor over the remaining axes"""
    if isinstance(t, MaskedAxisTensor) or not isinstance(axis, int):
        raise OutOfReach("np.any / np.all along several axes or on a masked tensor")
    ax = axis + t.ndim if axis < 0 else axis
    if not 0 <= ax < t.ndim:
        raise ValueError("axis %d is out of bounds for array of dimension %d" % (axis, t.ndim))
    n = t.rshape[ax]
    shape = tuple(d for i, d in enumerate(t.rshape) if i != ax)
    c = ctx()

    def elem(*idx):
        def at(k):
            full_idx = list(idx[:ax]) + [k] + list(idx[ax:])
            v = _truthy(t._elem(*full_idx))
            return b_not(v) if want_all else v

        if isinstance(n, int):
            hit = b_or(*[at(k) for k in range(n)]) if n else False
        else:
            k = sg.new_binder(c, "k")
            c.binders.append((k, z3.And(k >= 0, k < zi(n))))
            try:
                u = at(k)
            finally:
                c.binders.pop()
            hit = _exists(c, k, n, zb(u) if not isinstance(u, bool) else u)
        return b_not(hit) if want_all else hit

    if not shape:
        return sbool(elem())
    return STensor(shape, elem, "b")


def _truthy(v):
    k = kind_of(v)
    if k == "b":
        return raw(v)
    if k == "i":
        return r_cmp("!=", raw(v), 0)
    if k == "f":
        return raw(to_f(v) != 0)
    raise OutOfReach("truthiness of object")


_ALL = {}


def _forall_tensor(t):
    """raw bool: every element of t is truthy.  Symbolic extent -> Bool UF + axioms."""
    c = ctx()
    sh = t.rshape
    if builtins_any(isinstance(d, int) and d == 0 for d in sh):
        return True
    if builtins_all(isinstance(d, int) for d in sh):
        conds = []
        import itertools as _it

        for idx in _it.product(*[range(d) for d in sh]):
            conds.append(_truthy(t._elem(*idx)))
        return b_and(*conds)
    ks = [sg.new_binder(c, "a") for _ in sh]
    rng = z3.And(*[z3.And(k >= 0, k < zi(d)) for k, d in zip(ks, sh)])
    c.binders.append((ks[0], rng))
    try:
        body = _truthy(t._elem(*ks))
    finally:
        c.binders.pop()
    cb = core._bconst(body)
    if cb is True:
        return True
    body = zb(body)
    nm = c.fresh("All")
    app = z3.Bool(nm)
    wit = [z3.Int(nm + "_w%d" % i) for i in range(len(ks))]
    # app => forall ks in range: body ;  not app => witness in range violates body
    c.fn_axioms.append(z3.ForAll(ks, z3.Implies(z3.And(app, rng), body)))
    subs = list(zip(ks, wit))
    c.fn_axioms.append(
        z3.Implies(z3.Not(app), z3.And(z3.substitute(rng, *subs), z3.Not(z3.substitute(body, *subs))))
    )
    return app


builtins_all = all
builtins_any = any


def _minmax(a, is_min):
    t = _as_tensor_or_scalar(a)
    if t is None:
        return wrap_scalar(_rawsc(a))
    c = ctx()
    sh = t.rshape
    if builtins_all(isinstance(d, int) for d in sh):
        import itertools as _it

        acc = None
        for idx in _it.product(*[range(d) for d in sh]):
            v = to_f(t._elem(*idx))
            if acc is None:
                acc = v
            else:
                better = raw(v < acc) if is_min else raw(v > acc)
                acc = SFloat(b_or(acc.u, v.u), r_ite(better, v.v, acc.v))
        if acc is None:
            raise ValueError("zero-size array to reduction operation which has no identity")
        return acc
    # contract (A-NP): result is a bound that is attained; NaN if any element NaN
    ks = [sg.new_binder(c, "m") for _ in sh]
    rng = z3.And(*[z3.And(k >= 0, k < zi(d)) for k, d in zip(ks, sh)])
    c.binders.append((ks[0], rng))
    try:
        body = to_f(t._elem(*ks))
    finally:
        c.binders.pop()
    nm = c.fresh("min" if is_min else "max")
    r = z3.Real(nm)
    wit = [z3.Int(nm + "_w%d" % i) for i in range(len(ks))]
    bv = zr(body.v)
    c.fn_axioms.append(z3.ForAll(ks, z3.Implies(rng, (r <= bv) if is_min else (r >= bv))))
    subs = list(zip(ks, wit))
    nonempty = z3.And(*[zi(d) > 0 for d in sh])
    c.safety("minmax-nonempty", nonempty)
    c.fn_axioms.append(z3.And(z3.substitute(rng, *subs), r == z3.substitute(bv, *subs)))
    u = body.u
    if core._bconst(u) is not False:
        u = _exists_multi(c, ks, rng, zb(u))
    return SFloat(u, r)


def _exists_multi(c, ks, rng, u):
    nm = c.fresh("Any")
    app = z3.Bool(nm)
    wit = [z3.Int(nm + "_w%d" % i) for i in range(len(ks))]
    subs = list(zip(ks, wit))
    c.fn_axioms.append(z3.Implies(app, z3.And(z3.substitute(rng, *subs), z3.substitute(u, *subs))))
    c.fn_axioms.append(z3.ForAll(ks, z3.Implies(z3.And(rng, u), app)))
    return app


def np_min(a, axis=None):
    if axis is not None:
        raise OutOfReach("min with axis")
    return _minmax(a, True)


def np_max(a, axis=None):
    if axis is not None:
        raise OutOfReach("max with axis")
    return _minmax(a, False)


def mean(a, axis=None):
    t = _as_tensor_or_scalar(a)
    if t is None or axis is not None:
        raise OutOfReach("mean")
    n = shape_prod(t.rshape)
    return np_sum(t) / sint(n)


# ---------------------------------------------------------------------------------------
# joining


def _pieces(seq):
    if isinstance(seq, SFamily):
        return seq
    if isinstance(seq, SSeq):
        raise OutOfReach("join of plain symbolic sequence")
    return [p if isinstance(p, STensor) else array(p) for p in seq]


def concatenate(seq, axis=0):
    ps = _pieces(seq)
    if isinstance(ps, SFamily):
        # a family of equally shaped 2-D pieces: joining (n, 1) columns along axis 1 is hstack,
        # (1, n) rows along axis 0 is vstack
        t = _family_to_tensor(ps)
        if t.ndim == 3 and axis in (1, -1) and isinstance(t.rshape[2], int) and t.rshape[2] == 1:
            return STensor((t.rshape[1], t.rshape[0]), lambda i, j: t._elem(j, i, 0), t.kind)
        if t.ndim == 3 and axis == 0 and isinstance(t.rshape[1], int) and t.rshape[1] == 1:
            return STensor((t.rshape[0], t.rshape[2]), lambda i, j: t._elem(i, 0, j), t.kind)
        raise OutOfReach("concatenate of family")
    if not ps:
        raise ValueError("need at least one array to concatenate")
    nd = ps[0].ndim
    if axis < 0:
        axis += nd
    for p in ps:
        if p.ndim != nd:
            raise ValueError("all the input array dimensions must match")
    for p in ps[1:]:
        for ax in range(nd):
            if ax != axis:
                _require_same_dim(ps[0].rshape[ax], p.rshape[ax], "concatenate")
    offs = [0]
    for p in ps:
        offs.append(core._num_op("+", offs[-1], p.rshape[axis]))
    shape = list(ps[0].rshape)
    shape[axis] = offs[-1]
    kind = "f" if builtins_any(p.kind == "f" for p in ps) else ps[0].kind

    def elem(*idx):
        i = idx[axis]
        r = None
        for j in range(len(ps) - 1, -1, -1):
            if isinstance(ps[j].rshape[axis], int) and ps[j].rshape[axis] == 0:
                continue  # an empty piece holds no position
            loc = list(idx)
            loc[axis] = core._num_op("-", i, offs[j])
            if isinstance(i, int) and isinstance(offs[j], int) and isinstance(offs[j + 1], int):
                if offs[j] <= i < offs[j + 1]:
                    return _coerce(ps[j]._elem(*loc), kind)
                continue
            v = _lazy(ps[j], loc, kind)
            if r is None:
                r = v
            else:
                cond = r_cmp("<", i, offs[j + 1])
                r = _lazy_ite(cond, v, r)
        if r is None:
            raise IndexError("concatenate index")
        return r() if callable(r) else r

    return STensor(tuple(shape), elem, kind)


def _lazy(p, loc, kind):
    return lambda: _coerce(p._elem(*loc), kind)


def _lazy_ite(cond, a, b):
    def f():
        cc = core._bconst(cond)
        if cc is True:
            return a()
        if cc is False:
            return b() if callable(b) else b
        return sc_ite(cond, a(), b() if callable(b) else b)

    return f


def hstack(seq):
    ps = _pieces(seq)
    if isinstance(ps, SFamily):
        t = _family_to_tensor(ps)  # (len, *piece)
        if t.ndim == 3:
            # pieces (n, 1) -> (n, len)
            if not (isinstance(t.rshape[2], int) and t.rshape[2] == 1):
                raise OutOfReach("hstack family of wide pieces")
            return STensor((t.rshape[1], t.rshape[0]), lambda i, j: t._elem(j, i, 0), t.kind)
        if t.ndim == 2:
            raise OutOfReach("hstack family of 1-D pieces")
        raise OutOfReach("hstack family")
    if ps and ps[0].ndim == 1:
        return concatenate(ps, axis=0)
    return concatenate(ps, axis=1)


def vstack(seq):
    ps = _pieces(seq)
    if isinstance(ps, SFamily):
        t = _family_to_tensor(ps)
        if t.ndim == 2:
            return t
        if t.ndim == 3 and isinstance(t.rshape[1], int) and t.rshape[1] == 1:
            return STensor((t.rshape[0], t.rshape[2]), lambda i, j: t._elem(i, 0, j), t.kind)
        raise OutOfReach("vstack family")
    ps = [p if p.ndim >= 2 else p.reshape(1, p.rshape[0]) for p in ps]
    return concatenate(ps, axis=0)


def stack(seq, axis=0):
    ps = _pieces(seq)
    if isinstance(ps, SFamily):
        if axis != 0:
            raise OutOfReach("stack family axis")
        return _family_to_tensor(ps)
    if axis != 0:
        raise OutOfReach("stack axis != 0")
    n = len(ps)
    if n == 0:
        raise ValueError("need at least one array to stack")
    for p in ps[1:]:
        if p.ndim != ps[0].ndim:
            raise ValueError("all input arrays must have the same shape")
        for a, b in zip(ps[0].rshape, p.rshape):
            _require_same_dim(a, b, "stack")
    kind = "f" if builtins_any(p.kind == "f" for p in ps) else ps[0].kind

    def elem(i, *idx):
        if isinstance(i, int):
            return _coerce(ps[i]._elem(*idx), kind)
        r = _coerce(ps[-1]._elem(*idx), kind)
        for j in range(n - 2, -1, -1):
            r = sc_ite(zi(i) == j, _coerce(ps[j]._elem(*idx), kind), r)
        return r

    return STensor((n,) + ps[0].rshape, elem, kind)


def block(rows):
    """np.block for a nested list [[a, b], [c, d]] of 2-D arrays"""
    if not (isinstance(rows, list) and rows and builtins_all(isinstance(r, list) for r in rows)):
        raise OutOfReach("np.block general form")
    return concatenate([concatenate(r, axis=1) for r in rows], axis=0)


def fromiter(it, dtype=None, count=-1):
    return array(list(it), dtype=dtype)


# ---------------------------------------------------------------------------------------
# A-NP contracts (assumed; stated in contracts/numpy_c.py)


def convolve(v, w, mode="full"):
    """A-NP: convolve(v, ones(m), 'valid')[t] == sum_{k<m} v[t+k] for n>=m (only this form)"""
    if mode != "valid":
        raise OutOfReach("convolve mode")
    v = _as_tensor_or_scalar(v)
    w = _as_tensor_or_scalar(w)
    if v is None or w is None or v.ndim != 1 or w.ndim != 1:
        raise OutOfReach("convolve operands")
    m, n = w.rshape[0], v.rshape[0]
    # only all-ones kernels are modelled
    probe = w._elem(0 if isinstance(m, int) else z3.Int(ctx().fresh("wp")))
    pv = to_f(probe)
    if not (pv.u is False and core.is_concrete_num(pv.v) and pv.v == 1):
        raise OutOfReach("convolve kernel is not ones()")
    ctx().safety("convolve-valid-n>=m", r_cmp(">=", n, m))
    ctx().safety("convolve-m>=1", r_cmp(">=", m, 1))
    out_n = core._num_op("+", core._num_op("-", n, m), 1)

    def elem(t):
        return _sigma_scalar(m, lambda k: v._elem(core._num_op("+", t, k)))

    return STensor((out_n,), elem, "f")


class _Linalg:
    @staticmethod
    def matrix_rank(a):
        """A-NP contract: 0 <= rank <= min(R, C);  rank < 2  <=>  all 2x2 minors vanish.
        (exact-arithmetic reading; numpy's tolerance is not modelled)"""
        t = _as_tensor_or_scalar(a)
        if t is None or t.ndim != 2:
            raise OutOfReach("matrix_rank of non-matrix")
        c = ctx()
        key = ("rank", id(t))
        R, C = t.rshape
        nm = c.fresh("rank")
        r = z3.Int(nm)
        c.fn_axioms.append(z3.And(r >= 0, r <= zi(R), r <= zi(C)))
        i, i2, j, j2 = (z3.Int(nm + "_" + x) for x in ("i", "i2", "j", "j2"))
        rng = z3.And(i >= 0, i < zi(R), i2 >= 0, i2 < zi(R), j >= 0, j < zi(C), j2 >= 0, j2 < zi(C))

        def minor(a_, a2, b_, b2):
            x = to_f(t._elem(a_, b_)).v
            y = to_f(t._elem(a2, b2)).v
            z = to_f(t._elem(a_, b2)).v
            w = to_f(t._elem(a2, b_)).v
            return zr(x) * zr(y) - zr(z) * zr(w)

        c.fn_axioms.append(z3.ForAll([i, i2, j, j2], z3.Implies(z3.And(r < 2, rng), minor(i, i2, j, j2) == 0)))
        wi, wi2, wj, wj2 = (z3.Int(nm + "_w" + x) for x in ("i", "i2", "j", "j2"))
        wr = z3.And(wi >= 0, wi < zi(R), wi2 >= 0, wi2 < zi(R), wj >= 0, wj < zi(C), wj2 >= 0, wj2 < zi(C))
        c.fn_axioms.append(z3.Implies(r >= 2, z3.And(wr, minor(wi, wi2, wj, wj2) != 0)))
        c.__dict__.setdefault("ranks", []).append((t, r))
        return sint(r)


linalg = _Linalg()


def cumsum(a):
    """bounded: 1-D tensor of concrete length"""
    t = _as_tensor_or_scalar(a)
    if t is None or t.ndim != 1 or not isinstance(t.rshape[0], int):
        raise OutOfReach("cumsum of symbolic-length / n-d tensor")
    vals, acc = [], None
    for k in range(t.rshape[0]):
        v = to_f(t._elem(k))
        acc = v if acc is None else acc + v
        vals.append(acc)
    if not vals:
        return STensor((0,), _raise_empty, "f")
    return STensor((len(vals),), _list_elem(vals, "f"), "f")


def argmax(a):
    """bounded: index of the first maximal entry of a 1-D tensor of concrete length (for a
    boolean tensor: the first True, 0 when there is none)"""
    t = _as_tensor_or_scalar(a)
    if t is None or t.ndim != 1 or not isinstance(t.rshape[0], int) or t.rshape[0] == 0:
        raise OutOfReach("argmax of symbolic-length / n-d / empty tensor")
    n = t.rshape[0]
    if t.kind == "b":
        r = 0
        for k in range(n - 1, -1, -1):
            r = r_ite(raw(t._elem(k)), k, r)
        return sint(r)
    best, idx = to_f(t._elem(0)), 0
    for k in range(1, n):
        v = to_f(t._elem(k))
        better = raw(v > best)
        idx = r_ite(better, k, idx)
        best = f_ite(better, v, best)
    return sint(idx)


def argwhere(a):
    raise OutOfReach("argwhere")


def setdiff1d(a, b, assume_unique=False):
    raise OutOfReach("setdiff1d")


def median(a):
    raise OutOfReach("median")


def apply_along_axis(func1d, axis, arr, *args, **kwargs):
    """Apply func1d to 1-D slices.  Modelled for 2-D `arr` and scalar-valued func1d."""
    t = _as_tensor_or_scalar(arr)
    if t is None or t.ndim != 2:
        raise OutOfReach("apply_along_axis rank")
    n_out = t.rshape[1 - axis]
    c = ctx()
    if isinstance(n_out, int):
        vals = []
        for i in range(n_out):
            sl = t[i, :] if axis == 1 else t[:, i]
            vals.append(func1d(sl, *args, **kwargs))
        return array(vals, dtype=float)
    s = sg.new_binder(c, "r")
    sl = STensor(
        (t.rshape[axis],),
        (lambda k: t._elem(s, k)) if axis == 1 else (lambda k: t._elem(k, s)),
        t.kind,
    )
    val = c.merge(lambda: func1d(sl, *args, **kwargs), s)
    fam = SFamily([s], [n_out], val, "apply_along_axis")
    return _family_to_tensor(fam, float)


# ---------------------------------------------------------------------------------------
# the namespace bound to `np` in loaded modules


def multiply(a, b):
    return elementwise2("*", a, b)


def add(a, b):
    return elementwise2("+", a, b)


def subtract(a, b):
    return elementwise2("-", a, b)


def true_divide(a, b):
    return elementwise2("/", a, b)


def negative(a):
    return elementwise2("-", 0, a)


def reciprocal(a):
    return elementwise2("/", 1.0, a)


def square(a):
    return elementwise2("*", a, a)


def _maxmin2(a, b, want_max):
    def f(x, y):
        x, y = to_f(x), to_f(y)
        ge = r_cmp(">=", x.v, y.v) if want_max else r_cmp("<=", x.v, y.v)
        return SFloat(b_or(x.u, y.u), r_ite(ge, x.v, y.v))  # NaN-propagating, like numpy

    return elementwise(f, a, b, kind="f")


def maximum(a, b):
    return _maxmin2(a, b, True)


def minimum(a, b):
    return _maxmin2(a, b, False)


def isfinite(a):
    """NaN and +-Inf are one 'undefined' flag in this model (A-REAL): finite == defined"""
    return logical_not(isnan(a))


def zeros_like(a, dtype=None):
    t = _as_tensor_or_scalar(a)
    if t is None:
        return 0.0
    return full(t.rshape, 0.0 if (dtype in (None, float) and t.kind == "f") or dtype is float else 0)


def ones_like(a, dtype=None):
    t = _as_tensor_or_scalar(a)
    if t is None:
        return 1.0
    return full(t.rshape, 1.0 if (dtype in (None, float) and t.kind == "f") or dtype is float else 1)


def full_like(a, fill_value, dtype=None):
    t = _as_tensor_or_scalar(a)
    if t is None:
        return fill_value
    if t.kind == "i" and dtype is None and isinstance(fill_value, float) and fill_value != fill_value:
        raise ValueError("cannot convert float NaN to integer")
    return full(t.rshape, fill_value)


def empty_like(a, dtype=None):
    return zeros_like(a, dtype)


def expand_dims(a, axis):
    t = _as_tensor_or_scalar(a)
    if t is None or not isinstance(axis, int):
        raise OutOfReach("expand_dims")
    key = [slice(None)] * t.ndim
    key.insert(axis if axis >= 0 else t.ndim + 1 + axis, None)
    return t[tuple(key)]


def atleast_1d(a):
    t = _as_tensor_or_scalar(a)
    if t is None:
        return array([a])
    return t if t.ndim >= 1 else STensor((1,), lambda i: t._elem(), t.kind)


def squeeze(a, axis=None):
    t = _as_tensor_or_scalar(a)
    if t is None:
        return a
    if axis is not None:
        raise OutOfReach("squeeze with axis")
    keep = [d for d, n in enumerate(t.rshape) if not (isinstance(n, int) and n == 1)]
    if any(not isinstance(t.rshape[d], int) for d in range(t.ndim) if d not in keep):
        raise OutOfReach("squeeze of symbolic unit axis")
    if len(keep) == t.ndim:
        return t
    shape = tuple(t.rshape[d] for d in keep)

    def elem(*idx):
        full_idx = [0] * t.ndim
        for d, i in zip(keep, idx):
            full_idx[d] = i
        return t._elem(*full_idx)

    return STensor(shape, elem, t.kind)


def ravel(a):
    t = _as_tensor_or_scalar(a)
    if t is None:
        return array([a])
    return t.flatten()


class _Facade:
    """the namespace bound to `np` in the loaded modules: a numpy name this model does not
    provide is *out of reach* (the function falls back to the bounded tier / is left
    undecided), never an AttributeError that would look like a defect of the code"""

    def __getattr__(self, name):
        if name.startswith("__"):
            raise AttributeError(name)
        raise OutOfReach("numpy.%s is not modelled by the facade" % name)


def facade():
    import types

    g = globals()
    ns = _Facade()
    skip = {"math", "Fraction", "z3", "core", "sg", "ctx"}
    def guard(name, fn):
        # a call signature this model does not provide (e.g. an unmodelled keyword) is out of
        # reach, not a TypeError of the code under verification
        def g_(*a, **kw):
            try:
                return fn(*a, **kw)
            except TypeError as e:
                if "unexpected keyword argument" in str(e) or "positional argument" in str(e):
                    raise OutOfReach("numpy.%s: call form not modelled (%s)" % (name, e))
                raise

        g_.__name__ = getattr(fn, "__name__", name)
        return g_

    for k, v in g.items():
        if k.startswith("_") or k in skip:
            continue
        setattr(ns, k, guard(k, v) if isinstance(v, types.FunctionType) else v)
    ns.sum = guard("sum", np_sum)
    ns.all = guard("all", np_all)
    ns.any = guard("any", np_any)
    ns.min = guard("min", np_min)
    ns.max = guard("max", np_max)
    ns.abs = guard("abs", abs_)
    ns.absolute = guard("absolute", abs_)
    ns.ndarray = STensor
    ns.isscalar = lambda x: not isinstance(x, (STensor, list, tuple, SSeq))
    return ns
