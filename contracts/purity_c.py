"""C18: results are a pure function of the arguments.

1. frame pass (tier P, syntactic obligations): every function of the package is free of
   mutation sites except the declared ones below;
2. util.lazyproperty contract (tier P);
3. history enumeration (tier E): fixture responses under different read schedules, re-used
   argument objects and the three response forms, against a pristine evaluation.
"""
import copy
import glob
import json
import os
import random

from pvc.harness import Contract, EnumContract, REGISTRY

# qualname -> list of (kind, text-prefix, justification)
DECLARED = {
    "util:lazyproperty.__get__": [
        ("subscript-store", "obj.__dict__[self.__name__] = value", "the memo itself: first read stores fget(obj); later reads return it (contract below)"),
    ],
    "cube:_BaseMeasure.raw_cube_array": [
        ("attribute-store", "raw_cube_array.flags.writeable = False", "makes the freshly reshaped array read-only: strengthens the frame"),
    ],
    "cube:Cube._numeric_array_dimension": [
        ("mutating-call", "rows_dimension['type'].get('elements', []).append(", "appends to a list inside the dict literal allocated in this activation"),
    ],
    "cubepart:_Slice.population_proportions": [
        ("subscript-store", "population_proportions[self.diff_row_idxs, :] = np.nan", "writes into the array freshly produced by _assemble_matrix (fancy indexing copies; checked in mode C by cubepart:_Slice._assemble_matrix)"),
        ("subscript-store", "population_proportions[:, self.diff_column_idxs] = np.nan", "same fresh array"),
    ],
    "cubepart:_Strand.weighted_counts": [
        ("subscript-store", "counts[list(self.diff_row_idxs)] = np.nan", "writes into the float copy (.astype) of the array freshly produced by _assemble_vector"),
    ],
    "cubepart:_Strand.unweighted_counts": [
        ("subscript-store", "counts[list(self.diff_row_idxs)] = np.nan", "writes into the float copy (.astype) of the array freshly produced by _assemble_vector"),
    ],
    "cubepart:_Strand.population_proportions": [
        ("subscript-store", "population_proportions[list(self.diff_row_idxs)] = np.nan", "writes into the float copy (.astype) of the array freshly produced by _assemble_vector"),
    ],
    # declared mutators of caller-supplied objects: decided by the history enumeration
    "dimension:_ElementIdShim.shimmed_dimension_dict": [
        ("subscript-store", "shim['type']['elements'][idx]['subvar_alias'] = alias", "MUTATOR: adds a derived key to the caller's dimension dict (idempotent, view-preserving: history check)"),
        ("subscript-store", "el['datetime_value'] = el['value']", "MUTATOR: same, datetime dimensions"),
    ],
    "dimension:_ElementIdShim.shimmed_dimension_transforms_dict": [
        ("subscript-store", "shim['elements'] = ", "MUTATOR: rewrites element references to aliases in the caller's transforms"),
        ("subscript-store", "shim['order']['element_ids'] = ", "MUTATOR"),
        ("subscript-store", "fixed['top'] = ", "MUTATOR"),
        ("subscript-store", "fixed['bottom'] = ", "MUTATOR"),
    ],
    "cube:Cube.augment_response": [
        ("subscript-store", "cube_resp['result']['dimensions'][0]['type']['elements'] = elements", "MUTATOR of the filter cube's response"),
        ("subscript-store", "cube_resp['result']['counts'] = data", "MUTATOR"),
        ("subscript-store", "cube_resp['result']['measures']['count']['data'] = data", "MUTATOR"),
    ],
    "cube:Cube.inflate": [
        ("mutating-call", "dimensions.insert(0, rows_dimension)", "MUTATOR when `dimensions` aliases the caller's response list (history check)"),
    ],
}


class FramePass(Contract):
    name = "frame:modifies-nothing (every function of cr.cube)"
    props = ("C18",)

    def run(self, B, cfg):
        from pvc import frame, loader

        if B.mode == "C":
            return
        sites, nfun = frame.analyse_package(loader.REPO_SRC)
        clean = nfun - len(sites)
        B.check("frame:%d functions scanned" % nfun, nfun > 1000)
        B.check("frame:functions-without-mutation-sites (%d of %d)" % (clean, nfun), clean >= nfun - len(DECLARED))
        for q, ss in sorted(sites.items()):
            decl = DECLARED.get(q, [])
            for (line, kind, text) in ss:
                ok = any(kind == k and text.startswith(t) for k, t, _ in decl)
                B.check("frame:%s  [%s] %s" % (q, kind, text[:60]), ok, kind="frame",
                        msg="undeclared mutation site at line %s of %s: %s (a new in-place write must be shown to hit a fresh "
                            "object and be added to DECLARED, or it breaks C18)" % (line, q, text[:120]))


REGISTRY.append(FramePass())


class LazyProperty(Contract):
    """util.lazyproperty: a read returns the cached value when it is not None, otherwise
    fget(obj) which it stores; assignment always raises; a None result is recomputed (so
    fget must be deterministic -- which the frame pass provides)."""

    name = "util:lazyproperty"
    props = ("C18",)

    def run(self, B, cfg):
        lp = B.cls("util:lazyproperty")
        calls = []

        class Host:
            @lp
            def value(self):
                calls.append(1)
                return ("v", len(calls))

            @lp
            def none(self):
                calls.append(2)
                return None

        h = Host()
        a, b = h.value, h.value
        B.check("cached-after-first-read", a is b and calls.count(1) == 1 and a == ("v", 1))
        h.none
        h.none
        B.check("None-is-recomputed", calls.count(2) == 2)
        try:
            h.value = 3
            B.check("assignment-raises", False)
        except AttributeError:
            B.check("assignment-raises", True)
        B.check("class-access-returns-descriptor", isinstance(Host.value, lp))
        B.check("instance-dict-holds-memo", h.__dict__.get("value") is a)


REGISTRY.append(LazyProperty())


# ---------------------------------------------------------------------------------------
# history enumeration

PROPS_SLICE = [
    "counts", "unweighted_counts", "row_proportions", "column_proportions", "table_proportions",
    "row_labels", "column_labels", "rows_base", "columns_base", "rows_margin", "columns_margin",
    "table_base", "table_margin", "zscores", "pvals", "column_index", "row_order", "column_order",
    "shape", "inserted_row_idxs", "inserted_column_idxs", "population_counts", "means", "sums",
    "columns_scale_mean", "rows_scale_mean", "pairwise_indices", "table_name", "name", "row_codes",
    "column_codes", "rows_dimension_fills", "smoothed_column_proportions", "column_std_err",
    "row_share_sum", "payload_order", "dimension_types", "row_weighted_bases", "column_weighted_bases",
    "columns_scale_median_margin", "rows_scale_median_margin", "columns_scale_mean_margin",
    "rows_scale_mean_margin", "columns_scale_median", "rows_scale_median", "table_weighted_bases",
    "row_std_err", "population_counts_moe", "pairwise_means_indices", "rows_margin_proportion",
    "columns_margin_proportion", "table_std_err", "row_unweighted_bases", "min_base_size_mask",
    "smoothed_means", "smoothed_column_index", "smoothed_columns_scale_mean", "smoothed_column_percentages",
    "column_percentages", "row_percentages", "table_percentages", "population_std_err", "stddev", "medians",
    "column_unweighted_bases", "table_unweighted_bases", "column_share_sum", "total_share_sum",
]
PROPS_STRAND = [
    "counts", "unweighted_counts", "table_proportions", "row_labels", "rows_base", "rows_margin",
    "table_base_range", "table_margin_range", "row_order", "shape", "inserted_row_idxs", "means",
    "sums", "scale_mean", "scale_median", "population_counts", "table_name", "name", "row_codes",
    "rows_dimension_fills", "unweighted_bases", "weighted_bases", "share_sum", "payload_order",
    "smoothed_means", "table_percentages", "table_proportion_stderrs", "table_proportion_stddevs", "population_counts_moe",
    "scale_std_dev", "scale_std_err", "stddev", "medians", "min_base_size_mask",
]


def norm(v):
    import numpy as np

    if type(v).__name__ == "MinBaseSizeMask":
        return (norm(v.row_mask), norm(v.column_mask), norm(v.table_mask))
    if callable(v):
        try:
            v = v()
        except Exception as e:
            return ("EXC", type(e).__name__)
    if isinstance(v, np.ndarray):
        return ("arr", v.shape, tuple(norm(x) for x in v.ravel().tolist()))
    if isinstance(v, (list, tuple)):
        return tuple(norm(x) for x in v)
    if isinstance(v, float):
        return "nan" if v != v else round(v, 10)
    if isinstance(v, (np.floating, np.integer, np.bool_)):
        return norm(v.item())
    if isinstance(v, (int, str, bool, type(None))):
        return v
    return repr(v)


def read_partition(p, order):
    names = PROPS_SLICE if type(p).__name__ == "_Slice" else (PROPS_STRAND if type(p).__name__ == "_Strand" else ["means", "table_base", "is_empty"])
    names = list(names)
    if order == "reverse":
        names = names[::-1]
    elif isinstance(order, int):
        random.Random(order).shuffle(names)
    out = {}
    for n in names:
        try:
            out[n] = norm(getattr(p, n))
        except Exception as e:
            out[n] = ("EXC", type(e).__name__)
    return out


def read_cube(resp, transforms, order="forward", population=1000):
    from cr.cube.cube import Cube

    c = Cube(resp, transforms=transforms, population=population)
    parts = c.partitions
    idxs = list(range(len(parts)))
    if order == "reverse":
        idxs = idxs[::-1]
    elif isinstance(order, int):
        random.Random(order + 1).shuffle(idxs)
    res = {}
    for i in idxs:
        res[i] = read_partition(parts[i], order)
    res["ndim"] = c.ndim
    res["fraction"] = norm(c.population_fraction)
    return res


TRANSFORMS = [
    {},
    {"rows_dimension": {"prune": True}, "columns_dimension": {"prune": True}},
    {"rows_dimension": {"elements": {"1": {"hide": True}, "2": {"name": "renamed"}}, "order": {"type": "explicit", "element_ids": [2, 1, 99]}},
     "columns_dimension": {"elements": {"1": {"hide": True}}, "order": {"type": "explicit", "element_ids": [3, 99, 1]}}},
    {"rows_dimension": {"order": {"type": "label", "direction": "ascending", "fixed": {"top": [2, 99], "bottom": [1]}}},
     "columns_dimension": {"order": {"type": "opposing_element", "element_id": 1, "measure": "col_percent", "fixed": {"bottom": [1, 99]}}}},
    {"rows_dimension": {"insertions": [{"function": "subtotal", "name": "t", "anchor": "top", "args": [1, 2], "id": 1},
                                        {"function": "subtotal", "name": "d", "anchor": 2, "kwargs": {"positive": [1], "negative": [2]}, "id": 2}]},
     "columns_dimension": {"insertions": [{"function": "subtotal", "name": "cd", "anchor": "bottom", "kwargs": {"positive": [1], "negative": [2]}, "id": 1}]}},
    # smoothing on both dimensions (takes effect on categorical-date ones)
    {"rows_dimension": {"smoother": {"function": "one_sided_moving_avg", "window": 2}},
     "columns_dimension": {"smoother": {"function": "one_sided_moving_avg", "window": 2}}},
]


def fixtures():
    root = os.path.join(os.environ.get("PVC_REPO_SRC", "/repo/src"), "..", "tests", "fixtures")
    if not os.path.isdir(root):
        root = "/repo/tests/fixtures"
    out = []
    for p in sorted(glob.glob(os.path.join(root, "*.json")) + glob.glob(os.path.join(root, "*", "*.json"))):
        try:
            if os.path.getsize(p) > 400000 or os.path.getsize(p) == 0:
                continue
            with open(p) as f:
                d = json.load(f)
        except Exception:
            continue
        if isinstance(d, dict) and ("result" in d or "result" in d.get("value", {})):
            out.append((os.path.relpath(p, root), d))
    return out


class Histories(EnumContract):
    name = "cube:histories (read schedules, re-used argument objects, response forms)"
    props = ("C18",)
    bound = "fixture responses (<= 400 kB) x 6 transform dictionaries x {forward, reverse, 3 shuffled} read schedules of 68 slice / 34 strand properties, second cube on the same argument objects, JSON / dict / {'value': ...} forms"
    clauses = ("schedule-independent", "reuse-of-argument-objects", "response-forms", "multi-cube-reuse")

    def cases(self, cfg, seed, thorough):
        fx = fixtures()
        rnd = random.Random(4000 + seed)
        if not thorough:
            rnd.shuffle(fx)
            dated = [f for f in fx if "date" in f[0] or "smooth" in f[0] or "wave" in f[0]]
            fx = (dated[:12] + [f for f in fx if f not in dated])[:45]
        for name, _ in fx:
            for ti in range(len(TRANSFORMS)):
                yield dict(fixture=name, transforms=ti)
        for k in range(6 if thorough else 3):
            yield dict(multicube=k)

    def check_case(self, case, cfg):
        if "multicube" in case:
            return self.check_multicube(case)
        fx = dict(fixtures())
        resp0 = fx[case["fixture"]]
        tr0 = TRANSFORMS[case["transforms"]]
        bad = []
        pristine = read_cube(copy.deepcopy(resp0), copy.deepcopy(tr0), "forward")
        rev = read_cube(copy.deepcopy(resp0), copy.deepcopy(tr0), "reverse")
        if rev != pristine:
            bad.append("schedule-independent")
        for sched in case.get("schedules", (11, 12, 13)):
            if read_cube(copy.deepcopy(resp0), copy.deepcopy(tr0), sched) != pristine:
                bad.append("schedule-independent")
                break
        # re-used argument objects: first cube reads in reverse, second forward, third again
        resp, tr = copy.deepcopy(resp0), copy.deepcopy(tr0)
        a = read_cube(resp, tr, "reverse")
        b = read_cube(resp, tr, "forward")
        c = read_cube(resp, tr, "forward")
        if not (a == pristine and b == pristine and c == pristine):
            bad.append("reuse-of-argument-objects")
        # response forms
        inner = resp0.get("value", resp0)
        forms = [json.dumps(inner), copy.deepcopy(inner), {"value": copy.deepcopy(inner)}]
        outs = [read_cube(f, copy.deepcopy(tr0), "forward") for f in forms]
        if not (outs[0] == outs[1] == outs[2] == pristine):
            bad.append("response-forms")
        return bad

    def check_multicube(self, case):
        """numeric-measure multi-cube set (rows cube without dimensions is inflated): a
        standalone cube built afterwards from the same response object must look pristine"""
        from cr.cube.cube import Cube, CubeSet

        k = case["multicube"]
        n = 2 + (k % 2)
        mean0 = {"result": {"dimensions": [], "counts": [10], "measures": {"mean": {"data": [2.5 + k], "n_missing": 1}, "count": {"data": [10]}}, "n": 10}}
        col = {"result": {"dimensions": [{"type": {"class": "categorical", "categories": [{"id": i + 1, "name": "c%d" % i, "missing": False} for i in range(n)]}, "references": {"alias": "c", "name": "C"}}],
                          "counts": [3] * n, "measures": {"mean": {"data": [1.5 + i for i in range(n)], "n_missing": 0}, "count": {"data": [3] * n}}, "n": 3 * n}}
        responses = [mean0, col]
        trs = [{}, {}]
        pristine_nd = [Cube(copy.deepcopy(r)).ndim for r in responses]

        def summary(rs, ts):
            cs = CubeSet(rs, ts, 1000, 0)
            return norm([[read_partition(p, "forward") for p in ps] for ps in cs.partition_sets])

        want = summary(copy.deepcopy(responses), copy.deepcopy(trs))
        got1 = summary(responses, trs)
        got2 = summary(responses, trs)
        after_nd = [Cube(r).ndim for r in responses]
        bad = []
        if not (got1 == want and got2 == want and after_nd == pristine_nd):
            bad.append("multi-cube-reuse")
        return bad


REGISTRY.append(Histories())
