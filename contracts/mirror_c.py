"""C10, the spec-level half of the argument.

Every row-direction class of matrix/measure.py is proved equal to its spec function on every
environment E (rows x columns), every column-direction class to its own spec function.  C10
relates the two: the row-direction measure of a response equals the transposed column-direction
measure of the exchanged response.  That follows from the per-class contracts *iff* the two spec
functions are mirror images of each other:

        spec_row(E)[a][b][x, y]  ==  spec_column(E^T)[b][a][y, x]          (for every E)

where E^T is E with the two dimensions (and their insertions), the count interface and the
numeric values exchanged.  The class of environments is closed under ^T by construction
(`SliceEnv(rc, cc, rd, cd)^T` satisfies the invariants of `SliceEnv(cc, rc, cd, rd)`), so the
per-class contracts apply to E^T.  These lemmas are statements about the specification only
(no code of /repo runs in them); they make a lop-sided pair of spec functions - which would
let a lop-sided pair of classes verify - fail here.  Direction-free measures are their own
mirror images."""
from pvc.harness import Contract, REGISTRY
from . import spec
from .common import SliceEnv

MOD = "matrix.measure"


class _MirrorIface:
    """the count interface of the exchanged response"""

    def __init__(self, B, cc):
        rd = B.rd
        T2 = lambda t, n0, n1: B.spec_tensor((n0, n1), lambda x, y: rd(t, y, x))
        self.B = B
        self.diff_nans = cc.diff_nans
        self.table_base = cc.table_base
        self.rows_base, self.columns_base = cc.columns_base, cc.rows_base
        self.rows_table_base, self.columns_table_base = cc.columns_table_base, cc.rows_table_base
        self._cc, self._T2 = cc, T2

    def bind(self, R, C):
        cc, T2 = self._cc, self._T2
        # R, C: sizes of the *original* environment; the mirrored tensors are (C, R)
        self.counts = T2(cc.counts, C, R)
        self.row_bases = T2(cc.column_bases, C, R)
        self.column_bases = T2(cc.row_bases, C, R)
        self.table_bases = T2(cc.table_bases, C, R)
        return self


class _MirrorEnv:
    def __init__(self, B, env):
        self.B, self.DT = B, env.DT
        self.R, self.C = env.C, env.R
        self.rows, self.cols = env.cols, env.rows
        self.rdim, self.cdim = env.cdim, env.rdim
        self.dims = (self.rdim, self.cdim)
        self.rows_cat, self.cols_cat = env.cols_cat, env.rows_cat
        self.w = _MirrorIface(B, env.w).bind(env.R, env.C)
        self.u = _MirrorIface(B, env.u).bind(env.R, env.C)


def _mirror_blocks(B, name, blocks, mirrored):
    """blocks[a][b][x, y] == mirrored[b][a][y, x]"""
    rd = B.rd
    for a in (0, 1):
        for b in (0, 1):
            want = B.spec_tensor(
                tuple(blocks[a][b].rshape) if hasattr(blocks[a][b], "rshape") else blocks[a][b].shape,
                lambda x, y, m=mirrored[b][a]: rd(m, y, x),
            )
            B.eq_tensor("%s[%d][%d]" % (name, a, b), blocks[a][b], want)


class SpecMirror(Contract):
    name = MOD + ":lemma.row-direction spec == transposed column-direction spec of the exchanged response"
    props = ("C10",)

    def configs(self):
        out = []
        for rc in (True, False):
            for cc in (True, False):
                out.append(dict(rc=rc, cc=cc, rd=False, cd=False))
        out.append(dict(rc=True, cc=True, rd=True, cd=False))
        out.append(dict(rc=True, cc=False, rd=True, cd=False))
        out.append(dict(rc=True, cc=True, rd=True, cd=True))
        return out

    def size_space(self, cfg):
        return SliceEnv.size_space(cfg["rc"], cfg["cc"])

    def run(self, B, cfg):
        env = SliceEnv(B, cfg["rc"], cfg["cc"], rows_date=cfg["rd"], cols_date=cfg["cd"])
        mir = _MirrorEnv(B, env)
        w, mw = env.w, mir.w
        # direction-free measures
        _mirror_blocks(B, "counts", spec.count_blocks(B, env, w), spec.count_blocks(B, mir, mw))
        _mirror_blocks(B, "table-bases", spec.table_base_blocks(B, env, w), spec.table_base_blocks(B, mir, mw))
        _mirror_blocks(B, "table-proportions", spec.proportion_blocks(B, env, w, "table"), spec.proportion_blocks(B, mir, mw, "table"))
        _mirror_blocks(B, "table-variances", spec.variance_blocks(B, env, w, "table"), spec.variance_blocks(B, mir, mw, "table"))
        # row-direction of E == column-direction of E^T
        _mirror_blocks(B, "row-bases", spec.row_base_blocks(B, env, w), spec.column_base_blocks(B, mir, mw))
        _mirror_blocks(B, "row-proportions", spec.proportion_blocks(B, env, w, "row"), spec.proportion_blocks(B, mir, mw, "column"))
        _mirror_blocks(B, "row-variances", spec.variance_blocks(B, env, w, "row"), spec.variance_blocks(B, mir, mw, "column"))
        _mirror_blocks(B, "row-std-errors", spec.stderr_blocks(B, env, w, "row"), spec.stderr_blocks(B, mir, mw, "column"))
        # ... and the other way round
        _mirror_blocks(B, "column-bases", spec.column_base_blocks(B, env, w), spec.row_base_blocks(B, mir, mw))
        _mirror_blocks(B, "column-proportions", spec.proportion_blocks(B, env, w, "column"), spec.proportion_blocks(B, mir, mw, "row"))


REGISTRY.append(SpecMirror())


class SpecMirrorZscores(Contract):
    name = MOD + ":lemma.z-score spec is its own mirror image"
    props = ("C10", "C12")

    def configs(self):
        return [dict(rc=rc, cc=cc) for rc in (True, False) for cc in (True, False)]

    def size_space(self, cfg):
        return SliceEnv.size_space(cfg["rc"], cfg["cc"])

    def run(self, B, cfg):
        env = SliceEnv(B, cfg["rc"], cfg["cc"])
        mir = _MirrorEnv(B, env)
        defective = B.flag("defective")
        _mirror_blocks(B, "z-scores", spec.zscore_blocks(B, env, env.w, defective), spec.zscore_blocks(B, mir, mir.w, defective))


REGISTRY.append(SpecMirrorZscores())


class SpecMirrorSums(Contract):
    name = MOD + ":lemma.share-of-sum / scale-statistic specs: rows of E == columns of E^T"
    props = ("C10", "C15", "C14")

    def size_space(self, cfg):
        return SliceEnv.size_space(True, True)

    def run(self, B, cfg):
        env = SliceEnv(B, True, True)
        mir = _MirrorEnv(B, env)
        R, C = env.R, env.C
        rd = B.rd
        S = B.tensor("sums", (R, C), maybe_nan=True)
        ST = B.spec_tensor((C, R), lambda x, y: rd(S, y, x))
        _mirror_blocks(B, "sums", spec.sum_measure_blocks(B, env, S), spec.sum_measure_blocks(B, mir, ST))
        _mirror_blocks(B, "row-share", spec.share_sum_blocks(B, env, S, "row"), spec.share_sum_blocks(B, mir, ST, "column"))
        _mirror_blocks(B, "column-share", spec.share_sum_blocks(B, env, S, "column"), spec.share_sum_blocks(B, mir, ST, "row"))
        _mirror_blocks(B, "total-share", spec.share_sum_blocks(B, env, S, "total"), spec.share_sum_blocks(B, mir, ST, "total"))
        # scale statistics: numeric values of the opposing dimension
        values = B.tensor("numeric_values", (C,), maybe_nan=True)
        for what in ("mean", "sd"):
            a = spec.scale_blocks(B, env, env.w, values, "rows", what)
            b = spec.scale_blocks(B, mir, mir.w, values, "columns", what)
            for k in (0, 1):
                B.eq_tensor("scale-%s[%d]" % (what, k), a[k], b[k])


REGISTRY.append(SpecMirrorSums())
