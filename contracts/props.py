"""Per-property claim table: evidence level, what decides the property, technique."""

TRUST = (
    "Trusted base: A-REAL (floats as exact reals; NaN and +-Inf conflated), A-NP / A-CDF (numpy and scipy.stats as "
    "modelled by the pvc facade -- exercised by concrete replays on real numpy in every run, not proved), A-RESP (a "
    "response is the tabulation of a respondent set), the Sigma rewrite rules and fact generators (trusted, not machine-checked), "
    "the pvc engine (loader rewrites R1-R4, symbolic facade, path scheduler) and z3. Callee contracts assumed at each "
    "modular cut and per-contract preconditions are listed in the evidence file."
)

P = "contracts on the real functions; VC generation by symbolic execution of the real bodies; z3 discharge for all sizes"
E = "bounded stand-in: real code vs oracle written from the statement, enumerated over a stated bound"

CLAIMS = {
    "C01": ("proof", "5 C01", "Plane / axis selection of every cube-measure class and factory (exhaustive over dimension-type pairs), valid-element indexing of Cube arrays incl. the numeric-array permutation, NaN for unavailable values and the public wiring are postconditions proved for all sizes; the composition through the public API is additionally checked against a respondent-level tabulation (bounded).", P + "; " + E),
    "C02": ("proof", "5 C02", "Every per-cell base, 1-D margin, table base, [min, max] range and min-base mask ('<') is a proved postcondition, for slices (9 cube-count classes x all pairings, 6 base-block classes, 4 marginal classes, table values, margin fallbacks, mask class) and strands (3 count classes, base measures, ranges, mask); end-to-end bounded checks against respondents (slices and strands).", P + "; " + E),
    "C03": ("proof", "5 C03", "Proportion blocks == count/base per block, NaN-iff-zero-base, [0,1] range, sums-to-one and 100x percentages proved for all sizes and subtotal lists, for slices and strands; 1-D margin proportions proved; the 2-D margin-proportion form is a bounded stand-in and carries the open known finding F17.", P + "; bounded stand-in for the 2-D margin proportion; " + E),
    "C04": ("proof", "5 C04", "Signed-merge formulas of every block of every measure, order-independent intersections (Fubini), NaN rules and the categorical-date wave-difference rule proved; merge-equivalence with merged data checked end-to-end (bounded).", P + "; " + E),
    "C05": ("proof", "5 C05", "Assembly = block matrix re-indexed by the two display orders (proved, unbounded); every public output uses those same two orders (wiring, proved); values never read display transforms (frame clause of every measure contract); position-valued outputs and duplicate-freedom bounded.", P + "; " + E),
    "C06": ("proof", "5 C06", "Slice-index expression and all cube-measure factories proved to select the table of the k-th valid element (incl. the with-missings tensor); partition == restricted 2-D analysis checked end-to-end (bounded).", P + "; " + E),
    "C07": ("other", "5 C07", "Real Dimension / _Subtotals / collators / order helpers enumerated against an oracle of the statement within a stated bound (tier E); the anchoring theorem over the collator's sort keys is proved for all sizes.", E + "; lemma over sort keys proved by z3"),
    "C08": ("other", "5 C08", "Sort-by-value order of real collators / helpers enumerated against the statement (monotone body, NaN last, fixed brackets, subtotal group, fallback) within a bound; keyword->measure tables and monotone-surrogate lemmas proved.", E + "; tables and lemmas proved"),
    "C09": ("proof", "5 C09", "Pruning base per type pair and mask <=> base == 0 proved for all sizes from unweighted counts (wiring proved); hidden / pruned visibility and subtotal pruning enumerated against the statement (bounded).", P + "; " + E),
    "C10": ("proof", "5 C10", "Cube-count classes of (A,B) and (B,A) proved to be each other's transposes (relational contracts on the real classes); wiring tables symmetric; public API transposition checked end-to-end (bounded).", P + "; " + E),
    "C11": ("proof", "5 C11", "Three-term variance code proved equal to E[X^2]-E[X]^2 of the +1/-1/0 indicator per block, NaN where the proportion is undefined (incl. categorical-date dimensions), non-negativity, sqrt(var/base), 1.959964 x std-error.", P),
    "C12": ("proof", "5 C12", "Adjusted standardized residual per block from the cell's own bases, rank guard, p-value in [0,1], 2x2 chi-square identity proved.", P),
    "C13": ("proof", "5 C13", "t statistic / effective base / degrees of freedom / p-value per block incl. subtotal columns as selected column proved; antisymmetry, p symmetry, self-comparison lemmas proved over the statement's formula. The index sets (display positions, alpha / secondary alpha, only-larger, never the column itself, under column reordering / hiding / insertion) and the composed t / p values are checked through the public API against respondent-level data (bounded). The Welch (means) and overlap variants are not decided (see evidence).", P + "; " + E),
    "C14": ("proof", "5 C14", "Scale mean proved equal to the respondent-level mean for all sizes; std-error proved; std-dev and median bounded (concrete sizes, symbolic contents); all statistics checked against respondent-level data end-to-end (bounded).", P + "; bounded stand-ins for std-dev / median; " + E),
    "C15": ("proof", "5 C15", "Every share-of-sum block proved to divide by the base-cell total of its row / column / table.", P),
    "C16": ("proof", "5 C16", "Baselines of the four unconditional-count classes, the index formula and the 3-D factory proved; end-to-end bounded check.", P + "; " + E),
    "C17": ("proof", "5 C17", "Fraction cascade proved path-complete over every shape of the filter statistics with symbolic numbers (Python division semantics); proportion / std-error selection proved exhaustively over type pairs (slices) and dimension types (strands); population counts / margin of error incl. NaN at differences bounded (concrete sizes, symbolic contents) for slices and strands, strands also end-to-end.", P + "; bounded stand-ins for population_counts; " + E),
    "C18": ("other", "5 C18", "modifies-nothing frame pass over every function of the package (syntactic obligations, declared mutators listed) + lazyproperty contract proved; histories (read schedules, re-used argument objects, response forms) enumerated on fixture responses (tier E).", "AST frame pass + " + E),
    "C19": ("exploration", "5 C19", "Real Dimension / _ElementIdShim enumerated over every spelling x transform slot x stale reference within a stated bound, against the statement.", E),
    "C20": ("proof", "5 C20", "Trailing moving average with NaN prefix and all guards proved unbounded in series length and window (A-NP convolve contract); smoothed measures = smoother applied to the unsmoothed blocks; smoothed scale mean = scale mean of smoothed proportions.", P),
}
