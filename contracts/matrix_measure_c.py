"""Contracts for cr.cube.matrix.measure (second-order measures)."""
from pvc.harness import Contract, REGISTRY
from . import spec
from .common import SliceEnv
from .matrix_subtotals_c import check_blocks

MOD = "matrix.measure"


def blocks_stub(B, label, blocks, **extra):
    return B.stub(label, blocks=blocks, **extra)


class _BlocksContract(Contract):
    """`<cls>.blocks` of a measure built as cls(dimensions, second_order_measures, cube_measures)"""

    cls = None
    dates = False

    def __init__(self):
        self.name = "%s:%s.blocks" % (MOD, self.cls)

    def configs(self):
        out = []
        for c in SliceEnv.CAT_CONFIGS:
            if self.dates:
                for rd_ in ((False, True) if c["rc"] else (False,)):
                    for cd_ in ((False, True) if c["cc"] else (False,)):
                        out.append(dict(c, rd=rd_, cd=cd_))
            else:
                out.append(dict(c))
        return out

    def size_space(self, cfg):
        return SliceEnv.size_space(cfg["rc"], cfg["cc"])

    def env(self, B, cfg):
        return SliceEnv(B, cfg["rc"], cfg["cc"], cfg.get("rd", False), cfg.get("cd", False))

    def som(self, B, env):
        return B.stub("second_order_measures")

    def expected(self, B, env):
        raise NotImplementedError

    def run(self, B, cfg):
        env = self.env(B, cfg)
        obj = B.new("%s:%s" % (MOD, self.cls), env.dims, self.som(B, env), env.cube_measures)
        check_blocks(B, "blocks", obj.blocks, self.expected(B, env))

    def assumptions(self):
        return [
            "A-DIM: every dimension has at least one valid element (R >= 1, C >= 1)",
            "A-NOSUB-ARR: MR / CA-subvariable dimensions carry no subtotals (Dimension.subtotals contract)",
            "callee contracts assumed at the cut: _BaseCubeCounts interface (verified in matrix.cubemeasure contracts), _Subtotal.addend_idxs/subtrahend_idxs strictly increasing in-range index lists",
        ]


def _mk(cls_name, props, expected, som=None, dates=False):
    ns = dict(cls=cls_name, props=props, dates=dates, expected=lambda self, B, env: expected(B, env))
    if som is not None:
        ns["som"] = lambda self, B, env: som(B, env)
    k = type("C_" + cls_name, (_BlocksContract,), ns)
    REGISTRY.append(k())
    return k


# ---- counts ---------------------------------------------------------------------------
_mk("_WeightedCounts", ("C01", "C04"), lambda B, env: spec.count_blocks(B, env, env.w))
_mk("_UnweightedCounts", ("C01", "C04"), lambda B, env: spec.count_blocks(B, env, env.u))

# ---- bases ----------------------------------------------------------------------------
_mk("_RowWeightedBases", ("C02", "C04"), lambda B, env: spec.row_base_blocks(B, env, env.w))
_mk("_RowUnweightedBases", ("C02", "C04"), lambda B, env: spec.row_base_blocks(B, env, env.u))
_mk("_ColumnWeightedBases", ("C02", "C04"), lambda B, env: spec.column_base_blocks(B, env, env.w))
_mk("_ColumnUnweightedBases", ("C02", "C04"), lambda B, env: spec.column_base_blocks(B, env, env.u))
_mk("_TableWeightedBases", ("C02", "C04"), lambda B, env: spec.table_base_blocks(B, env, env.w))
_mk("_TableUnweightedBases", ("C02", "C04"), lambda B, env: spec.table_base_blocks(B, env, env.u))


# ---- proportions ----------------------------------------------------------------------
def _som_props(direction):
    def som(B, env):
        bases = {
            "row": ("row_weighted_bases", spec.row_base_blocks),
            "column": ("column_weighted_bases", spec.column_base_blocks),
            "table": ("table_weighted_bases", spec.table_base_blocks),
        }[direction]
        return B.stub(
            "second_order_measures",
            weighted_counts=blocks_stub(B, "weighted_counts", spec.count_blocks(B, env, env.w)),
            **{bases[0]: blocks_stub(B, bases[0], bases[1](B, env, env.w))},
        )

    return som


_mk("_RowProportions", ("C03", "C04"), lambda B, env: spec.proportion_blocks(B, env, env.w, "row"),
    som=_som_props("row"), dates=True)
_mk("_ColumnProportions", ("C03", "C04"), lambda B, env: spec.proportion_blocks(B, env, env.w, "column"),
    som=_som_props("column"), dates=True)
_mk("_TableProportions", ("C03", "C04"), lambda B, env: spec.proportion_blocks(B, env, env.w, "table"),
    som=_som_props("table"))
