"""Shared state builders for contracts: dimension / subtotal collaborators cut at their
contracts (the callee contracts themselves are verified in dimension_c.py)."""
from pvc.harness import Contract  # noqa: F401


class SubtotalSpec:
    """Abstract view of the subtotals of one dimension: S subtotals, each with a strictly
    increasing addend index list and subtrahend index list into [0, n_elems)."""

    def __init__(self, B, name, n_elems, allow=True):
        self.B, self.name, self.n_elems = B, name, n_elems
        if not allow:
            self.S = 0
            self.seq = B.seq(0, lambda s: None, name + ".subtotals")
            self.add_at = self.sub_at = lambda s: None
            return
        self.S = B.size(name + ".S")
        self.add_at = B.idx_family(name + ".add", self.S, "n", n_elems)
        self.sub_at = B.idx_family(name + ".sub", self.S, "n", n_elems)
        self.seq = B.seq(self.S, self._stub, name + ".subtotals")

    def _stub(self, s):
        return self.B.stub(
            "%s.subtotal" % self.name,
            addend_idxs=self.add_at(s),
            subtrahend_idxs=self.sub_at(s),
        )

    # spec-side accessors
    def n_add(self, s):
        return self.B.length(self.add_at(s))

    def n_sub(self, s):
        return self.B.length(self.sub_at(s))

    def add(self, s, k):
        return self.B.idx_at(self.add_at(s), k)

    def sub(self, s, k):
        return self.B.idx_at(self.sub_at(s), k)

    def signed_sum(self, s, f):
        """sum_{k in addends} f(k) - sum_{k in subtrahends} f(k)"""
        B = self.B
        return B.Sum(self.n_add(s), lambda k: f(self.add(s, k))) - B.Sum(
            self.n_sub(s), lambda k: f(self.sub(s, k))
        )

    def pos_sum(self, s, f):
        return self.B.Sum(self.n_add(s), lambda k: f(self.add(s, k)))

    def neg_sum(self, s, f):
        return self.B.Sum(self.n_sub(s), lambda k: f(self.sub(s, k)))

    def is_diff(self, s):
        return self.n_sub(s) > 0


def size_space_subtotals(prefix, max_s=2, max_len=2):
    sp = {prefix + ".S": list(range(0, max_s + 1))}
    for s in range(max_s):
        sp["%s.add.n[%d]" % (prefix, s)] = list(range(0, max_len + 1))
        sp["%s.sub.n[%d]" % (prefix, s)] = list(range(0, max_len + 1))
    return sp


def mk_dim(B, name, n_elems, dimension_type=None, subtotals=True, **extra):
    st = SubtotalSpec(B, name, n_elems, allow=subtotals)
    attrs = dict(subtotals=st.seq)
    if dimension_type is not None:
        attrs["dimension_type"] = dimension_type
    attrs.update(extra)
    return B.stub(name, **attrs), st
