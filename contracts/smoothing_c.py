"""Contracts for cr.cube.smoothing (C20)."""
from pvc.harness import Contract, REGISTRY

MOD = "smoothing"
NOT_CAT_DATE = ("BINNED_NUMERIC", "CAT", "CA_CAT", "CA_SUBVAR", "DATETIME", "LOGICAL", "MR_CAT", "MR_SUBVAR",
                "NUM_ARRAY", "TEXT")


class SmoothContract(Contract):
    """_SingleSidedMovingAvgSmoother.smooth: trailing moving average of window w, first
    w-1 periods NaN; unchanged when the dimension is not categorical-date, w < 2, w > n or
    the series is empty.  A-NP: convolve(v, ones(w), 'valid')[t] == sum_{k<w} v[t+k]."""

    name = MOD + ":_SingleSidedMovingAvgSmoother.smooth"
    props = ("C20",)

    def configs(self):
        return [dict(nd=nd, date=d, win=w) for nd in (1, 2) for d in (True, False) for w in ("given", "absent")]

    def size_space(self, cfg):
        sp = {"n": [0, 1, 2, 3, 4], "w": [0, 1, 2, 3, 4, 5]}
        if cfg["nd"] == 2:
            sp["R"] = [0, 1, 2]
        return sp

    def run(self, B, cfg):
        DT = B.enum("enums:DIMENSION_TYPE")
        n = B.size("n")
        shape = (n,) if cfg["nd"] == 1 else (B.size("R"), n)
        V = B.tensor("values", shape, maybe_nan=True)
        if cfg["win"] == "given":
            w = B.integer("w")
            sd = {"window": w}
            weff = 2 if w == 0 else w  # `window or 2` (consults the path condition)
        else:
            sd = {}
            weff = 2
        if not cfg["date"]:
            # "when the dimension is not categorical-date": every other member of the enumeration
            dtype = B.member("dimension_type", "enums:DIMENSION_TYPE", NOT_CAT_DATE)
            sm = B.new(MOD + ":_SingleSidedMovingAvgSmoother", sd, dtype)
            B.check("unsmoothed-returned-unchanged", sm.smooth(V) is V)
            return
        sm = B.new(MOD + ":_SingleSidedMovingAvgSmoother", sd, DT.CAT_DATE)
        out = sm.smooth(V)
        size0 = (n == 0) if cfg["nd"] == 1 else B.bor(n == 0, shape[0] == 0)
        can = B.band(B.bnot(size0), weff >= 2, weff <= n)
        if out is V:
            # identity path: must be one where smoothing is impossible
            B.check("identity-only-when-cannot-smooth", B.bnot(can))
            return
        B.check("smoothed-only-when-can-smooth", can)

        def cell(*idx):
            t = idx[-1]
            lead = idx[:-1]
            def at(k):
                # positions before the first period only occur in the NaN prefix (masked below):
                # read position 0 there instead of a negative index
                pos = t - weff + 1 + k
                try:
                    if int(pos) < 0:
                        pos = 0
                except Exception:  # symbolic position
                    pass
                return B.rd(V, *(list(lead) + [pos]))

            mean = B.Sum(weff, at) / weff
            return B.ite(t < weff - 1, B.NaN(), mean)

        B.eq_tensor("smoothed", out, B.spec_tensor(shape, cell))

    def assumptions(self):
        return ["A-NP convolve: np.convolve(v, np.ones(w), mode='valid')[t] == sum_{k<w} v[t+k], length n-w+1"]


REGISTRY.append(SmoothContract())


class SmootherFactory(Contract):
    name = MOD + ":Smoother.factory"
    props = ("C20",)

    def run(self, B, cfg):
        DT = B.enum("enums:DIMENSION_TYPE")
        Sm = B.cls(MOD + ":Smoother")
        for fn in (None, "one_sided_moving_avg", "", "other"):
            sd = {"window": 3}
            if fn is not None:
                sd["function"] = fn
            dim = B.stub("dimension", smoothing_dict=sd, dimension_type=DT.CAT_DATE)
            if fn == "other":
                try:
                    Sm.factory(dim)
                    B.check("unknown-function-raises", False)
                except NotImplementedError:
                    B.check("unknown-function-raises", True)
                continue
            s = Sm.factory(dim)
            B.check(
                "factory:%r" % (fn,),
                type(s).__name__ == "_SingleSidedMovingAvgSmoother"
                and s._smoothing_dict is sd
                and s._dimension_type is DT.CAT_DATE
                and s._window == 3,
            )


REGISTRY.append(SmootherFactory())
