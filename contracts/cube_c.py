"""Contracts for cr.cube.cube (C17 fraction cascade, C01 raw arrays, C06 partitioning)."""
from pvc.harness import Contract, REGISTRY

MOD = "cube"

_ABSENT = object()


class PopulationFraction(Contract):
    """C17: filtered fraction = selected / (selected + other) of the weighted complete-case
    filter statistics when present (1 for a categorical-date filter), else filtered over
    unfiltered weighted N, 1 when unspecified, NaN when the denominator is zero.
    Exhaustive over the shapes of the response's filter statistics; numbers symbolic."""

    name = MOD + ":_Measures.population_fraction"
    props = ("C17",)

    NEW = ("absent", "no-filtered_complete", "weighted-null", "weighted-empty", "complete")
    DATE = (_ABSENT, True, False, None)
    OLD = ("both", "no-filtered", "no-unfiltered", "null-filtered", "null-unfiltered", "neither")

    def configs(self):
        out = []
        for new in self.NEW:
            if new == "complete":
                for d in range(len(self.DATE)):
                    out.append(dict(new=new, date=d, old="both"))
            else:
                for old in self.OLD:
                    out.append(dict(new=new, date=0, old=old))
        return out

    def run(self, B, cfg):
        result = {}
        sel = oth = a = b = None
        if cfg["new"] != "absent":
            fs = {}
            if cfg["new"] == "weighted-null":
                fs["filtered_complete"] = {"weighted": None}
            elif cfg["new"] == "weighted-empty":
                fs["filtered_complete"] = {"weighted": {}}
            elif cfg["new"] == "complete":
                sel, oth = B.pynum("selected", nonneg=True), B.pynum("other", nonneg=True)
                fs["filtered_complete"] = {"weighted": {"selected": sel, "other": oth}}
                d = self.DATE[cfg["date"]]
                if d is not _ABSENT:
                    fs["is_cat_date"] = d
            result["filter_stats"] = fs
        old = cfg["old"]
        if old in ("both", "no-unfiltered", "null-unfiltered"):
            a = B.pynum("filtered_n", nonneg=True)
            result["filtered"] = {"weighted_n": a}
        if old == "null-filtered":
            result["filtered"] = {"weighted_n": None}
        if old in ("both", "no-filtered", "null-filtered"):
            b = B.pynum("unfiltered_n", nonneg=True)
            result["unfiltered"] = {"weighted_n": b}
        if old == "null-unfiltered":
            result["unfiltered"] = {"weighted_n": None}
        m = B.new(MOD + ":_Measures", {"result": result}, B.stub("all_dimensions"))
        got = m.population_fraction
        if cfg["new"] == "complete":
            if self.DATE[cfg["date"]] is True:
                B.check("cat-date-filter-is-1", B.feq(got, 1))
                return
            num, den = sel, sel + oth
        elif old == "both":
            num, den = a, b
        else:
            B.check("unspecified-is-1", B.feq(got, 1))
            return
        # Python numbers: zero denominator -> NaN (never an exception, never Inf)
        if den == 0:
            B.check("zero-denominator-is-NaN", B.isnan(got))
        else:
            B.check("fraction", B.feq(got, num / den))

    def assumptions(self):
        return ["JSON numbers are Python int/float (division by zero raises ZeroDivisionError); "
                "a truthy filtered_complete.weighted carries both 'selected' and 'other'"]


REGISTRY.append(PopulationFraction())


# ---- C01: Cube measure arrays = raw response values at the valid elements ---------------
class DimsList(list):
    """stand-in for the Dimensions tuple: iterable of dimension stubs + dimension_order"""


CUBE_ARRAYS = {
    # public property -> (attribute of _Measures, fallback attribute or None)
    "counts_with_missings@weighted": "weighted_counts",
    "unweighted_counts": "unweighted_counts",
    "weighted_counts": "weighted_counts",
    "means": "means",
    "medians": "medians",
    "stddev": "stddev",
    "sums": "sums",
    "covariance": "covariance",
    "unweighted_valid_counts": "unweighted_valid_counts",
    "weighted_valid_counts": "weighted_valid_counts",
    "weighted_squared_counts": "weighted_squared_counts",
}


class CubeArrays(Contract):
    """every measure array of a Cube is the raw response tensor restricted to the valid
    (non-missing) elements of each dimension, wherever they sit in the payload, with the
    numeric-array axis permutation of `dimension_order`"""

    name = MOD + ":Cube.<measure arrays>"
    props = ("C01", "C06")

    def configs(self):
        return [dict(order=o) for o in ((0,), (0, 1), (1, 0), (0, 1, 2), (1, 2, 0))]

    def size_space(self, cfg):
        sp = {}
        for d in range(len(cfg["order"])):
            sp["A%d" % d] = [1, 2, 3]
            sp["V%d" % d] = [0, 1, 2]
        return sp

    def run(self, B, cfg):
        order = cfg["order"]
        nd = len(order)
        A = [B.size("A%d" % d, lo=1) for d in range(nd)]  # all elements, per *dimension*
        V = [B.size("V%d" % d) for d in range(nd)]
        v = [B.idx_list("valid%d" % d, V[d], A[d]) for d in range(nd)]
        dims = DimsList(
            B.stub("dimension%d" % d, valid_elements=B.stub("valid_elements", element_idxs=v[d])) for d in range(nd)
        )
        dims.dimension_order = order
        # the raw array has its axes in dimension_order
        raw_shape = tuple(A[i] for i in order)
        names = ["unweighted_counts", "weighted_counts", "means", "medians", "stddev", "sums",
                 "unweighted_valid_counts", "weighted_valid_counts", "weighted_squared_counts"]
        raws = {n: B.tensor("raw_" + n, raw_shape, maybe_nan=True) for n in names}

        def expected(T):
            # out axes follow the *dimensions* (ix_ creation order); source axis p holds
            # dimension order[p]
            def cell(*x):
                src = [B.idx_at(v[order[p]], x[order[p]]) for p in range(nd)]
                return B.rd(T, *src)

            return B.spec_tensor(tuple(V), cell)

        def cube(**present):
            meas = {n: (B.stub(n, raw_cube_array=raws[n]) if present.get(n, True) else None) for n in names}
            c = B.new(MOD + ":Cube", {"result": {}})
            B.cut(c, "_all_dimensions", dims)
            B.cut(c, "_measures", B.stub("measures", **meas))
            return c

        c = cube(unweighted_valid_counts=False, weighted_valid_counts=False)
        for n in ("means", "medians", "stddev", "sums", "weighted_squared_counts"):
            B.eq_tensor(n, getattr(c, n), expected(raws[n]))
        B.eq_tensor("unweighted_counts", c.unweighted_counts, expected(raws["unweighted_counts"]))
        B.eq_tensor("weighted_counts", c.weighted_counts, expected(raws["weighted_counts"]))
        B.eq_tensor("counts", c.counts, expected(raws["weighted_counts"]))
        B.check("unweighted_valid_counts-absent", c.unweighted_valid_counts is None)
        # valid-count responses: the counts are replaced by the valid counts
        c2 = cube()
        B.eq_tensor("unweighted_counts(valid)", c2.unweighted_counts, expected(raws["unweighted_valid_counts"]))
        B.eq_tensor("weighted_counts(valid)", c2.weighted_counts, expected(raws["weighted_valid_counts"]))
        B.eq_tensor("counts(valid)", c2.counts, expected(raws["weighted_valid_counts"]))
        # unweighted cube: counts fall back to the unweighted counts
        c3 = cube(weighted_counts=False, unweighted_valid_counts=False, weighted_valid_counts=False)
        B.check("weighted_counts-absent", c3.weighted_counts is None)
        B.eq_tensor("counts(unweighted cube)", c3.counts, expected(raws["unweighted_counts"]))
        c4 = cube(means=False)
        B.check("means-absent", c4.means is None)


REGISTRY.append(CubeArrays())


class RawCubeArray(Contract):
    """raw_cube_array: the flat payload reshaped (C order) to the all-dimensions shape;
    read-only; None when absent or of the wrong size.  A-NP reshape contract."""

    name = MOD + ":_BaseMeasure.raw_cube_array / _flat_values"
    props = ("C01",)

    def size_space(self, cfg):
        return {"D0": [1, 2], "D1": [1, 2, 3], "N": [0, 1, 2, 3, 4, 6]}

    def run(self, B, cfg):
        D0, D1, N = B.size("D0", lo=1), B.size("D1", lo=1), B.size("N")
        flat = B.tensor("flat", (N,), maybe_nan=True)
        m = B.new(MOD + ":_BaseMeasure", {}, B.stub("all_dimensions", shape=(D0, D1)))
        B.cut(m, "_flat_values", flat)
        out = m.raw_cube_array
        if out is None:
            B.check("None-only-when-size-mismatch", N != D0 * D1)
            return
        B.check("array-only-when-size-matches", N == D0 * D1)
        B.check("read-only", out.flags.writeable is False)
        B.eq_tensor("reshaped", out, B.spec_tensor((D0, D1), lambda i, j: B.rd(flat, i * D1 + j)))


REGISTRY.append(RawCubeArray())


class FlatValues(Contract):
    """C01: a value the response marks unavailable ({'?': -1}) surfaces as NaN; every other
    value is reported as carried; an absent measure is None.  Exhaustive over which entries
    are marked unavailable (<= 3 entries), values symbolic."""

    name = MOD + ":_<X>Measure._flat_values"
    props = ("C01",)

    CLASSES = {
        "_MeanMeasure": ("measures", "mean"),
        "_MediansMeasure": ("measures", "median"),
        "_StdDevMeasure": ("measures", "stddev"),
        "_SumMeasure": ("measures", "sum"),
        "_CovarianceMeasure": ("measures", "covariance"),
        "_OverlapMeasure": ("measures", "overlap"),
        "_ValidOverlapMeasure": ("measures", "valid_overlap"),
        "_UnweightedValidCountsMeasure": ("measures", "valid_count_unweighted"),
        "_WeightedValidCountsMeasure": ("measures", "valid_count_weighted"),
        "_WeightedSquaredCountsMeasure": ("measures", "weighted_squared_count"),
    }

    def configs(self):
        return [dict(cls=c) for c in sorted(self.CLASSES)]

    def run(self, B, cfg):
        import itertools

        cls = cfg["cls"]
        key = self.CLASSES[cls][1]
        may_be_marked = cls in ("_MeanMeasure", "_MediansMeasure", "_StdDevMeasure", "_SumMeasure",
                                "_CovarianceMeasure", "_OverlapMeasure", "_ValidOverlapMeasure")
        for n in (1, 2, 3):
            for marks in itertools.product((False, True), repeat=n):
                if any(marks) and not may_be_marked:
                    continue
                if cls == "_MediansMeasure" and any(marks):
                    continue  # np.array(mixed dict/number list) is an object array: covered in mode C only
                tag = "%s:%s" % (n, "".join("x" if m else "." for m in marks))
                vals = [B.real("v%s_%d" % (tag, i)) for i in range(n)]
                data = [({"?": -1} if m else v) for m, v in zip(marks, vals)]
                m = B.new("%s:%s" % (MOD, cls), {"result": {"measures": {key: {"data": data, "metadata": {}}}, "counts": []}}, B.stub("dims"))
                fv = m._flat_values

                def cell(i, marks=marks, vals=vals):
                    out = B.NaN()
                    for j in range(len(vals) - 1, -1, -1):
                        out = B.ite(i == j, B.NaN() if marks[j] else vals[j], out)
                    return out

                B.eq_tensor("flat:" + tag, fv, B.spec_tensor((n,), cell))
        absent = B.new("%s:%s" % (MOD, cls), {"result": {"measures": {}, "counts": []}}, B.stub("dims"))
        B.check("absent-is-None", absent._flat_values is None)


REGISTRY.append(FlatValues())
