#!/bin/sh
# behaviour-preserving edits of seeded/harmless/ applied to scratch copies of /repo in two
# groups (H1-H10 structural edits, H11-H20 numpy-idiom edits; two of them touch the same
# function): every check must stay green (no alarm).  /repo itself is not touched.
cd /verif
for grp in "1 2 3 4 5 6 7 8 9 10" "11 12 13 14 15 16 17 18 19 20"; do
  s=/dev/shm/harmless_$$
  rm -rf $s; mkdir -p $s; rsync -a --exclude .git /repo/ $s/
  for k in $grp; do (cd $s && patch -s -p1 < /verif/seeded/harmless/H$k/patch.diff) || echo "PATCH FAILED H$k"; done
  echo "##### harmless group: H$(echo $grp | sed 's/ / H/g')"
  for p in C01 C02 C03 C04 C05 C06 C07 C08 C09 C10 C11 C12 C13 C14 C15 C16 C17 C18 C19 C20; do
    PVC_REPO_SRC=$s/src ./check $p 2>&1 | grep -E "^(VIOLATION|UNDECIDED|CHECKER-CRASH|C[0-9][0-9]:)" | cut -c1-260
  done
  rm -rf $s
done
