"""Contracts for cr.cube.matrix.cubemeasure: the nine _<R>X<C>CubeCounts classes.

Serves C01 (counts select the 'selected' plane), C02 (bases, margins), C09 (pruning
bases/masks), C10 (through twins).
"""
from pvc.harness import Contract, register
from . import spec

MOD = "matrix.cubemeasure"


class _CubeCountsContract(Contract):
    # counts and bases of the nine pairings feed every proportion, variance, residual and index
    props = ("C01", "C02", "C03", "C09", "C11", "C12", "C16")

    def __init__(self, rk, ck):
        self.rk, self.ck = rk, ck
        self.cls = spec.CLASS_OF_PAIR[(rk, ck)]
        self.name = "%s:%s" % (MOD, self.cls)

    def size_space(self, cfg):
        return {"R": [1, 2, 3], "C": [1, 2, 3]}

    def run(self, B, cfg):
        rk, ck = self.rk, self.ck
        R, C = B.size("R"), B.size("C")
        T = B.tensor("T", spec.tensor_shape(rk, ck, R, C), nonneg=True)
        dims = B.stub("dimensions")
        obj = B.new("%s:%s" % (MOD, self.cls), dims, T, False)

        def sp(f):
            return B.spec_tensor((R, C), lambda i, j: f(B, T, rk, ck, R, C, i, j))

        B.eq_tensor("counts", obj.counts, B.spec_tensor((R, C), lambda i, j: spec.count(B, T, rk, ck, i, j)))
        B.eq_tensor("row_bases", obj.row_bases, sp(spec.row_base))
        B.eq_tensor("column_bases", obj.column_bases, sp(spec.column_base))
        B.eq_tensor("table_bases", obj.table_bases, sp(spec.table_base))
        B.check("diff_nans", obj.diff_nans is False)

        # -- 1-D margins: defined exactly when the opposing dimension is CAT, and then equal
        # -- to the (column-independent) per-cell base
        rb = obj.rows_base
        if ck == "CAT":
            B.eq_tensor("rows_base", rb, B.spec_tensor((R,), lambda i: spec.row_base(B, T, rk, ck, R, C, i, 0)))
            B.eq_tensor(
                "rows_table_base", obj.rows_table_base,
                B.spec_tensor((R,), lambda i: spec.table_base(B, T, rk, ck, R, C, i, 0)),
            )
        else:
            B.check("rows_base-undefined", rb is None)
            B.check("rows_table_base-undefined", obj.rows_table_base is None)
        cb = obj.columns_base
        if rk == "CAT":
            B.eq_tensor("columns_base", cb, B.spec_tensor((C,), lambda j: spec.column_base(B, T, rk, ck, R, C, 0, j)))
            B.eq_tensor(
                "columns_table_base", obj.columns_table_base,
                B.spec_tensor((C,), lambda j: spec.table_base(B, T, rk, ck, R, C, 0, j)),
            )
        else:
            B.check("columns_base-undefined", cb is None)
            B.check("columns_table_base-undefined", obj.columns_table_base is None)
        tb = obj.table_base
        if rk == "CAT" and ck == "CAT":
            B.eq_scalar("table_base", tb, spec.table_base(B, T, rk, ck, R, C, 0, 0))
        else:
            B.check("table_base-undefined", tb is None)

        # -- C09 pruning
        B.eq_tensor(
            "_rows_pruning_base", obj._rows_pruning_base,
            B.spec_tensor((R,), lambda i: spec.rows_pruning_base(B, T, rk, ck, R, C, i)),
        )
        B.eq_tensor(
            "_columns_pruning_base", obj._columns_pruning_base,
            B.spec_tensor((C,), lambda j: spec.columns_pruning_base(B, T, rk, ck, R, C, j)),
        )
        rm, cm = obj.rows_pruning_mask, obj.columns_pruning_mask
        B.all_cells(
            "rows_pruning_mask", (R,),
            lambda i: B.rd_bool(rm, i) == (spec.rows_pruning_base(B, T, rk, ck, R, C, i) == 0),
        )
        B.all_cells(
            "columns_pruning_mask", (C,),
            lambda j: B.rd_bool(cm, j) == (spec.columns_pruning_base(B, T, rk, ck, R, C, j) == 0),
        )


for _rk, _ck in spec.PAIRS:
    from pvc.harness import REGISTRY

    REGISTRY.append(_CubeCountsContract(_rk, _ck))


class _CubeCountsTwins(Contract):
    """C10: the cube-count class for the pairing (A, B) on a tensor and the class for (B, A)
    on the transposed tensor (item axis and selection axis of each side move together) are
    each other's transposes: counts, table bases, row bases <-> column bases, 1-D margins,
    pruning bases and masks.  A relational contract on the two real classes."""

    props = ("C10",)

    def __init__(self, rk, ck):
        self.rk, self.ck = rk, ck
        self.name = "%s:twins %s <-> %s" % (MOD, spec.CLASS_OF_PAIR[(rk, ck)], spec.CLASS_OF_PAIR[(ck, rk)])

    def size_space(self, cfg):
        return {"R": [1, 2, 3], "C": [1, 2, 3]}

    def run(self, B, cfg):
        rk, ck = self.rk, self.ck
        R, C = B.size("R"), B.size("C")
        T = B.tensor("T", spec.tensor_shape(rk, ck, R, C), nonneg=True)

        def tT(*idx):
            # idx is an index of the transposed tensor: (j, [sj], i, [si])
            idx = list(idx)
            j = idx.pop(0)
            sj = idx.pop(0) if ck == "MR" else None
            i = idx.pop(0)
            si = idx.pop(0) if rk == "MR" else None
            src = [i] + ([si] if rk == "MR" else []) + [j] + ([sj] if ck == "MR" else [])
            return B.rd(T, *src)

        Tt = B.spec_tensor(spec.tensor_shape(ck, rk, C, R), tT)
        dims = B.stub("dimensions")
        a = B.new("%s:%s" % (MOD, spec.CLASS_OF_PAIR[(rk, ck)]), dims, T, False)
        b = B.new("%s:%s" % (MOD, spec.CLASS_OF_PAIR[(ck, rk)]), dims, Tt, False)

        def tr(t):
            return B.spec_tensor((R, C), lambda i, j: B.rd(t, j, i))

        B.eq_tensor("counts", a.counts, tr(b.counts))
        B.eq_tensor("table_bases", a.table_bases, tr(b.table_bases))
        B.eq_tensor("row_bases<->column_bases", a.row_bases, tr(b.column_bases))
        B.eq_tensor("column_bases<->row_bases", a.column_bases, tr(b.row_bases))
        for x, y in (("rows_base", "columns_base"), ("columns_base", "rows_base"),
                     ("rows_table_base", "columns_table_base"), ("columns_table_base", "rows_table_base"),
                     ("_rows_pruning_base", "_columns_pruning_base"), ("_columns_pruning_base", "_rows_pruning_base")):
            va, vb = getattr(a, x), getattr(b, y)
            if va is None or vb is None:
                B.check("%s<->%s:both-undefined" % (x, y), va is None and vb is None)
            else:
                n = R if x.lstrip("_").startswith("rows") else C
                B.eq_tensor("%s<->%s" % (x, y), va, B.spec_tensor((n,), lambda k, vb=vb: B.rd(vb, k)))
        ta, tb_ = a.table_base, b.table_base
        if ta is None or tb_ is None:
            B.check("table_base:both-undefined", ta is None and tb_ is None)
        else:
            B.eq_scalar("table_base", ta, tb_)


for _rk, _ck in spec.PAIRS:
    REGISTRY.append(_CubeCountsTwins(_rk, _ck))
