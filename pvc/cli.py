"""Command line: ./check <Cid> [--tier quick|thorough] | --replay <file> | --all | --update-lock"""
import argparse
import glob
import importlib
import json
import multiprocessing as mp
import os
import random
import sys
import time
import traceback

ROOT = os.path.dirname(os.path.dirname(os.path.abspath(__file__)))
if ROOT not in sys.path:
    sys.path.insert(0, ROOT)

import pvc  # noqa: E402,F401
from pvc import core, harness, loader, run  # noqa: E402

CONTRACT_MODULES = None

ASSUMPTIONS_GLOBAL = [
    "A-REAL: float64 arithmetic treated as exact real arithmetic; NaN and +-Inf conflated into one 'undefined' flag",
    "A-NP: numpy operations behave as modelled by pvc.symnp (validated by concrete replays on real numpy, not proved)",
    "A-SIGMA: finite-sum rewrite rules and fact generators of pvc.sigma / pvc.run (linearity, Fubini, non-negativity, sub-sums, monotonicity): trusted, not machine-checked",
    "engine: pvc loader rewrites R1-R4, symbolic facade, z3 5.1 soundness",
]


def load_contracts():
    global CONTRACT_MODULES
    if CONTRACT_MODULES is None:
        CONTRACT_MODULES = []
        for p in sorted(glob.glob(os.path.join(ROOT, "contracts", "*_c.py"))):
            name = "contracts." + os.path.basename(p)[:-3]
            CONTRACT_MODULES.append(importlib.import_module(name))
    return harness.REGISTRY


def load_json(path, default):
    try:
        with open(path) as f:
            return json.load(f)
    except FileNotFoundError:
        return default


def tasks_for(prop):
    out = []
    for ci, c in enumerate(load_contracts()):
        if prop is not None and prop not in c.props:
            continue
        for gi, cfg in enumerate(c.configs()):
            out.append((ci, gi))
    return out


def _worker(args):
    ci, gi, tier, seed = args
    t0 = time.time()
    c = load_contracts()[ci]
    cfg = list(c.configs())[gi]
    res = dict(contract=c.name, cfg=run.cfg_key(cfg), props=list(c.props), tier="P", obligations=[],
               paths=0, oor=None, cover=None, violations=[], undecided=[], bounded=[], conform=None,
               secs=0.0, ci=ci, gi=gi)
    if isinstance(c, harness.EnumContract):
        try:
            _enum_worker(res, c, cfg, tier, seed)
        except Exception as e:
            res["crash"] = "%s: %s\n%s" % (type(e).__name__, e, traceback.format_exc(limit=8))
        res["secs"] = time.time() - t0
        return res
    try:
        repo = loader.Repo()
        decl_tier = getattr(c, "tier", "P")
        out = None
        if decl_tier == "P":
            out = run.verify_config(c, repo, cfg)
            res["paths"], res["oor"], res["cover"] = out["paths"], out["oor"], out["cover"]
        if decl_tier == "B" or (out is not None and out["oor"]):
            # bounded stand-in: same contract, concrete sizes, symbolic contents
            res["tier"] = "B"
            bres = run.verify_bounded(c, repo, cfg, seed, thorough=(tier == "thorough"))
            res["bounded"] = bres["summary"]
            res["obligations"] = [r.as_dict() for r in bres["results"]]
            for f in bres["failed"]:
                _handle_failure(res, c, repo, cfg, f, seed, sized=True)
            for r in bres["results"]:
                if r.name == "out-of-reach":
                    res["undecided"].append(dict(obligation="out-of-reach", reason="some size configurations are out of reach even in tier B: %s" % r.detail))
        else:
            res["obligations"] = [r.as_dict() for r in out["results"]]
            if out["cover"] and not str(out["cover"]).startswith("ok"):
                res["undecided"].append(dict(obligation="cover", reason=out["cover"]))
            seen = set()
            t_cex = time.time()
            for pi, ob, po in out["fails"]:
                if ob.name in seen:
                    continue
                seen.add(ob.name)
                # counterexample search budget per function: 2 confirmed replays or 150 s;
                # further failing obligations are reported without an input of their own
                n_conf = sum(1 for v in res["violations"] if v["confirmed"])
                search = n_conf < 2 and time.time() - t_cex < 150
                _handle_failure(res, c, repo, cfg, dict(name=ob.name, ob=ob, po=po), seed, sized=False, search=search)
        # conformance: the same contract on the real package with real numpy, random inputs
        res["conform"] = run.conform(c, cfg, seed, n=(25 if tier == "thorough" else 4))
        for cf in res["conform"]["failures"]:
            res["violations"].append(dict(obligation="conform:" + ",".join(cf["failures"][:3]) if cf["failures"] else "conform:exception",
                                          replay=cf, confirmed=True))
    except Exception as e:  # engine crash
        res["crash"] = "%s: %s\n%s" % (type(e).__name__, e, traceback.format_exc(limit=8))
    res["secs"] = time.time() - t0
    return res


def _enum_worker(res, c, cfg, tier, seed):
    harness.activate_native()
    res["tier"] = "E"
    n = 0
    fails = {}
    first = {}
    t0 = time.time()
    budget = 600 if tier == "thorough" else 100
    distinct = set()
    sample_case = None
    for case in c.cases(cfg, seed, tier == "thorough"):
        n += 1
        if sample_case is None:
            sample_case = json.loads(json.dumps(case, default=str))
        distinct.add(hash(json.dumps(case, sort_keys=True, default=str)))
        try:
            bad = c.check_case(case, cfg)
        except Exception as e:
            bad = ["exception:%s: %s" % (type(e).__name__, e)]
        for b in bad:
            fails[b] = fails.get(b, 0) + 1
            first.setdefault(b, case)
        if time.time() - t0 > budget:
            res["undecided"].append(dict(obligation="enumeration", reason="time budget reached after %d cases" % n))
            break
    clauses = list(c.clauses) or ["all"]
    for cl in clauses:
        nbad = sum(v for k, v in fails.items() if k == cl or k.startswith(cl + ":"))
        res["obligations"].append(dict(name="%s (%d cases)" % (cl, n), status="proved" if nbad == 0 else "refuted",
                                       secs=0.0, kind="enum", detail=None, tier="E"))
    for k, v in fails.items():
        if not any(k == cl or k.startswith(cl + ":") for cl in clauses):
            res["obligations"].append(dict(name=k, status="refuted", secs=0.0, kind="enum", detail=None, tier="E"))
    res["bounded"] = dict(cases=n, distinct=len(distinct), bound=c.bound, sample=json.loads(json.dumps(first and list(first.values())[0] or None, default=str)))
    res["sample_case"] = sample_case
    res["paths"] = n
    for b, case in first.items():
        res["violations"].append(dict(obligation=b, replay=dict(found=True, case=case, failures=[b], count=fails[b]), confirmed=True))


def _handle_failure(res, c, repo, cfg, f, seed, sized, search=True):
    name = f["name"]
    if sized and f.get("replay"):
        res["violations"].append(dict(obligation=name, replay=f["replay"], confirmed=True))
        return
    if sized:
        res["undecided"].append(dict(obligation=name, reason=f.get("reason", "bounded obligation not discharged")))
        return
    if getattr(f.get("ob"), "kind", None) == "frame":
        # the function read (or wrote) outside the frame its contract grants: a named obligation
        # that held on the pinned tree now fails; there is no failing *input* to replay
        res["violations"].append(dict(
            obligation=name, confirmed=False, frame=True,
            replay=dict(found=False, msg=(f["ob"].info or {}).get("msg"),
                        note="frame condition of the contract breached: the real function reads a collaborator attribute the "
                             "contract does not grant (or writes outside its declared sites); every functional obligation "
                             "downstream of that read is undecided")))
        return
    hint = None
    cex = dict(found=False, tried=0)
    if search:
        try:
            hint = run.hint_sizes(c, cfg, f["ob"], f["po"])
        except Exception:
            hint = None
        cex = run.find_counterexample(c, repo, cfg, name, seed=seed, hint=hint)
    if cex.get("found"):
        res["violations"].append(dict(obligation=name, replay=cex, confirmed=True))
    else:
        smt = None
        try:
            smt = run.smt2_of(f["ob"], f["po"].axioms)[:20000]
        except Exception:
            pass
        res["violations"].append(
            dict(obligation=name, replay=dict(found=False, tried=cex.get("tried"), smt2=smt,
                                               msg=(f["ob"].info or {}).get("msg")), confirmed=False)
        )


def write_replay(prop, res, v, idx):
    d = os.path.join(ROOT, "replays", prop)
    os.makedirs(d, exist_ok=True)
    safe = "".join(ch if ch.isalnum() or ch in "._-" else "_" for ch in "%s__%s__%s" % (res["contract"], res["cfg"], v["obligation"]))[:150]
    path = os.path.join(d, "%s.json" % safe)
    body = dict(property=prop, contract=res["contract"], cfg=res["cfg"], ci=res["ci"], gi=res["gi"],
                obligation=v["obligation"], confirmed=v["confirmed"], replay=v["replay"])
    with open(path, "w") as f:
        json.dump(body, f, indent=1, default=str)
    return os.path.relpath(path, ROOT)


def _child(conn, a):
    try:
        conn.send(_worker(a))
    finally:
        conn.close()


def _lost(a, why):
    """result record of a task whose worker did not deliver (hard deadline, or it died)"""
    ci, gi, tier, seed = a
    c = load_contracts()[ci]
    cfg = list(c.configs())[gi]
    return dict(contract=c.name, cfg=run.cfg_key(cfg), props=list(c.props), tier=getattr(c, "tier", "P"), obligations=[],
                paths=0, oor=None, cover=None, violations=[], bounded=[], conform=None, secs=0.0, ci=ci, gi=gi,
                undecided=[dict(obligation="worker", reason=why)])


def run_tasks(args, jobs, deadline_s):
    """one forked process per (contract, configuration), at most `jobs` at a time, each under
    a hard wall-clock deadline: a solver call that ignores its own timeout cannot hang the
    check (the task is then reported undecided, never as a violation)"""
    ctxm = mp.get_context("fork")
    pending = list(enumerate(args))
    running = {}
    results = [None] * len(args)
    attempts = {}
    while pending or running:
        while pending and len(running) < jobs:
            i, a = pending.pop(0)
            parent, child = ctxm.Pipe(duplex=False)
            p = ctxm.Process(target=_child, args=(child, a))
            p.start()
            child.close()
            attempts[i] = attempts.get(i, 0) + 1
            running[i] = (p, parent, time.time(), a)
        progressed = False
        for i, (p, conn, t0, a) in list(running.items()):
            if conn.poll(0):
                try:
                    results[i] = conn.recv()
                except (EOFError, OSError):
                    results[i] = _lost(a, "worker died before delivering its result")
                p.join(5)
                del running[i]
                progressed = True
            elif not p.is_alive():
                results[i] = _lost(a, "worker died (exit code %s)" % p.exitcode)
                del running[i]
                progressed = True
            elif time.time() - t0 > (deadline_s if attempts[i] > 1 else deadline_s / 2.0):
                # first attempt: half the deadline, then one fresh attempt with the full one (a
                # z3 call that ignores its timeout was seen once in ~10^3 runs of a task that
                # normally takes seconds, on an overloaded machine; it did not recur).  A retry
                # can only turn "undecided" into a verdict the solver actually reached.
                p.kill()
                p.join(5)
                del running[i]
                progressed = True
                if attempts[i] == 1:
                    pending.append((i, a))
                else:
                    results[i] = _lost(a, "hard deadline of %d s reached twice (solver call ignoring its timeout); not decided" % deadline_s)
        if not progressed:
            time.sleep(0.05)
    return results


def _deadline(tier):
    return int(os.environ.get("PVC_TASK_DEADLINE", "3600" if tier == "thorough" else "480"))


def _known(open_findings, res, ob_name):
    """the open finding that names this call site: contract, configuration(s) and the exact
    obligation(s); any other failing obligation is still a violation"""
    for k in open_findings:
        obs = k.get("obligations") or ([k["obligation"]] if k.get("obligation") else [])
        cfgs = k.get("cfg")
        cfg_ok = cfgs in (None, "*") or res["cfg"] == cfgs or (isinstance(cfgs, list) and res["cfg"] in cfgs)
        name = run.base_name(ob_name)
        name = name.split(" (")[0] if res["tier"] == "E" else name
        if k.get("contract") == res["contract"] and cfg_ok and name in obs:
            return k
    return None


def check_lemmas():
    """thorough tier: re-check the Lean statements of the Sigma rules (lemmas/SigmaRules.lean)"""
    import shutil
    import subprocess

    path = os.path.join(ROOT, "lemmas", "SigmaRules.lean")
    if not os.path.exists(path) or shutil.which("lean") is None:
        return dict(file="lemmas/SigmaRules.lean", status="not-run (lean or file missing)", secs=0.0)
    t0 = time.time()
    text = open(path).read()
    body = text.split("-/", 1)[-1]
    if "sorry" in body or "\naxiom " in body or "admit" in body:
        return dict(file="lemmas/SigmaRules.lean", status="REJECTED: sorry / axiom / admit in file", secs=0.0)
    try:
        pr = subprocess.run(["lean", path], capture_output=True, text=True, timeout=1500, cwd=os.path.join(ROOT, "lemmas"))
        ok = pr.returncode == 0 and "error" not in (pr.stdout + pr.stderr)
        n = text.count("\ntheorem ")
        return dict(file="lemmas/SigmaRules.lean", status="accepted by lean (%d theorems)" % n if ok else "FAILED: " + (pr.stdout + pr.stderr)[:400],
                    secs=round(time.time() - t0, 1))
    except Exception as e:  # timeout etc.
        return dict(file="lemmas/SigmaRules.lean", status="not-run (%s)" % type(e).__name__, secs=round(time.time() - t0, 1))


def _xcheck_summary(xdir):
    """aggregate the second-solver results written by the workers (thorough tier)"""
    import collections

    by = collections.Counter()
    n = 0
    disagreements = []
    for f in glob.glob(os.path.join(xdir, "results.*.jsonl")):
        for line in open(f):
            rec = json.loads(line)
            n += 1
            for k, v in rec["results"].items():
                by["%s:%s" % (k, v)] += 1
            if "sat" in rec["results"].values():
                disagreements.append(dict(obligation=rec["obligation"], results=rec["results"], smt2=rec.get("smt2")))
    return dict(sampled_unsat_queries=n, results=dict(by), disagreements=disagreements,
                note="a seeded 1-in-%s sample of the queries z3 5.1 reported unsat, re-run on cvc5 1.0.3 and z3 4.8.12 (8 s each); "
                     "timeouts / unknown are not disagreements" % os.environ.get("PVC_XCHECK_EVERY", "6"))


def check_property(prop, tier, seed, jobs):
    t0 = time.time()
    tasks = tasks_for(prop)
    if not tasks:
        print("no contracts registered for %s" % prop)
        return 3
    xdir = None
    if tier == "thorough":
        import shutil

        xdir = os.path.join(ROOT, "scratch", "xcheck", prop)
        shutil.rmtree(xdir, ignore_errors=True)
        os.makedirs(xdir, exist_ok=True)
        os.environ["PVC_XCHECK"] = xdir
    args = [(ci, gi, tier, seed) for ci, gi in tasks]
    if jobs > 1 and len(args) > 1:
        results = run_tasks(args, min(jobs, len(args)), _deadline(tier))
    else:
        results = [_worker(a) for a in args]

    known = load_json(os.path.join(ROOT, "known_findings.json"), {"findings": []})
    lock = load_json(os.path.join(ROOT, "obligations.lock.json"), {"proved": []})
    locked = set(lock.get("proved", []))
    open_findings = [k for k in known.get("findings", []) if k.get("status") == "open"
                     and (k.get("property") == prop or prop in (k.get("also") or []))]

    n_ob = n_dis = 0
    n_b = n_bdis = 0
    solver_s = 0.0
    violations, undecided, crashes, known_hits = [], [], [], []
    known_refuted = []
    functions, samples = [], []
    oor = []
    for res in results:
        functions.append(dict(function=res["contract"], cfg=res["cfg"], tier=res["tier"], paths=res["paths"],
                              obligations=len(res["obligations"]), secs=round(res["secs"], 2)))
        if res.get("crash"):
            crashes.append((res["contract"], res["cfg"], res["crash"]))
            continue
        if res["oor"]:
            oor.append("%s [%s]: %s" % (res["contract"], res["cfg"], res["oor"]))
        for ob in res["obligations"]:
            solver_s += ob["secs"]
            if ob["status"] != "proved" and _known(open_findings, res, ob["name"]) is not None:
                # the obligation a recorded (unrepaired) finding refutes: reported apart, neither
                # claimed as discharged nor counted among the obligations the claim rests on
                known_refuted.append("%s|%s|%s" % (res["contract"], res["cfg"], ob["name"]))
                continue
            if ob["tier"] == "P":
                n_ob += 1
                n_dis += ob["status"] == "proved"
            else:
                n_b += 1
                n_bdis += ob["status"] == "proved"
            if len(samples) < 6 and ob["status"] == "proved" and ob["kind"] in ("post", "enum"):
                samples.append("%s | %s | %s" % (res["contract"], res["cfg"], ob["name"]))
        if res.get("sample_case") is not None and len(samples) < 10:
            samples.append(dict(function=res["contract"], enumerated_case=res["sample_case"]))
        for u in res["undecided"]:
            hit = _known(open_findings, res, u["obligation"])
            if hit is not None:
                # an obligation a recorded finding refutes, left open by the solver this time
                known_hits.append((hit, res, dict(obligation=u["obligation"], confirmed=False, replay=None)))
                continue
            undecided.append((res, u))
        for v in res["violations"]:
            oid = "%s|%s|%s" % (res["contract"], res["cfg"], v["obligation"])
            hit = _known(open_findings, res, v["obligation"])
            if hit is not None:
                known_hits.append((hit, res, v))
                continue
            if v["confirmed"] or v.get("frame"):
                violations.append((res, v, oid))
            else:
                base = "%s|%s|%s" % (res["contract"], res["cfg"], run.base_name(v["obligation"]))
                if base in locked or oid in locked:
                    violations.append((res, v, oid))
                else:
                    undecided.append((res, dict(obligation=v["obligation"], reason="not discharged, no failing input found, not in ledger")))

    # -- report
    rc = 0
    printed = set()
    for hit, res, v in known_hits:
        key = hit.get("id") or hit.get("what")
        if key in printed:
            continue
        printed.add(key)
        print("KNOWN-FINDING: property=%s %s" % (prop, hit.get("what")))
    for i, (res, v, oid) in enumerate(violations):
        path = write_replay(prop, res, v, i)
        tail = "" if v["confirmed"] else " no-failing-input-found"
        print("VIOLATION property=%s replay=%s obligation=%s%s" % (prop, path, oid, tail) if False else
              "VIOLATION property=%s replay=%s%s" % (prop, path, tail))
        print("  obligation: %s" % oid)
        rc = 1
    if crashes:
        for c_, g_, tb in crashes:
            print("CHECKER-CRASH %s [%s]\n%s" % (c_, g_, tb))
        rc = rc or 3
    if undecided and rc == 0:
        for res, u in undecided[:20]:
            print("UNDECIDED %s [%s] %s: %s" % (res["contract"], res["cfg"], u["obligation"], u.get("reason")))
        rc = 2
    lemmas = check_lemmas() if tier == "thorough" else dict(file="lemmas/SigmaRules.lean", status="checked in the thorough tier only")
    if str(lemmas.get("status", "")).startswith(("FAILED", "REJECTED")):
        print("CHECKER-CRASH lemmas/SigmaRules.lean: %s" % lemmas["status"])
        rc = rc or 3
    xsum = _xcheck_summary(xdir) if xdir else dict(note="second-solver cross-check runs in the thorough tier only")
    for dis in xsum.get("disagreements", []):
        print("CHECKER-CRASH solver disagreement on %s: %s (query kept at %s)" % (dis["obligation"], dis["results"], dis["smt2"]))
        rc = rc or 3
    conform_runs = sum((r.get("conform") or {}).get("runs", 0) for r in results)
    wall = time.time() - t0
    from contracts.props import CLAIMS

    level = CLAIMS.get(prop, ("proof",))[0]
    enum_cases = sum((r.get("bounded") or {}).get("cases", 0) for r in results if r["tier"] == "E")
    enum_distinct = sum((r.get("bounded") or {}).get("distinct", 0) for r in results if r["tier"] == "E")
    enum_bounds = [dict(function=r["contract"], **{k: v for k, v in (r.get("bounded") or {}).items() if k in ("cases", "distinct", "bound")}) for r in results if r["tier"] == "E"]
    ev = dict(
        property_id=prop, tier=tier, seed=seed, level=level,
        coverage=dict(
            evaluations=enum_cases + conform_runs + n_ob + n_b,
            distinct_nontrivial=max(enum_distinct + n_ob + n_b, 2),
            rule="tier-P: one obligation per (function, configuration, postcondition clause), all distinct; tier-B: same at concrete sizes; tier-E: seeded cases drawn from the stated bound, distinct by value (counted by hashing the case); conformance: random concrete replays of every contract on real numpy",
            explanation=CLAIMS.get(prop, ("", "", ""))[2] if prop in CLAIMS else "",
            enumerations=enum_bounds,
            obligations=n_ob, discharged=n_dis,
            checker_cmd="./check %s --tier %s  (pvc symbolic executor over /repo/src + z3 %s in-process)" % (prop, tier, _z3v()),
            trusted_base=ASSUMPTIONS_GLOBAL + loader.REWRITES,
            functions_under_contract=functions,
            bounded=dict(obligations=n_b, discharged=n_bdis, note="tier-B obligations are bounded stand-ins, never counted as proved"),
            out_of_reach=oor,
            solver_time_s=round(solver_s, 3),
            back_end="z3 %s (python API, smt.mbqi=false, timeout %d ms per obligation)" % (_z3v(), run.TIMEOUT_MS),
            samples=samples,
            conformance_replays_on_real_numpy=conform_runs,
            known_findings_printed=sorted(set(h.get("what") for h, _, _ in known_hits)),
            obligations_refuted_by_known_findings=sorted(set(known_refuted)),
            sigma_lemmas=lemmas,
            second_solver_cross_check=xsum,
            undecided=[dict(function=r["contract"], cfg=r["cfg"], **{k: str(v)[:300] for k, v in u.items()}) for r, u in undecided][:50],
        ),
        assumptions=sorted(set(a for c in load_contracts() if prop in c.props for a in c.assumptions())) + ASSUMPTIONS_GLOBAL,
        wall_s=round(wall, 2),
        violations=len(violations),
    )
    # evidence describes /repo itself: runs pointed at another tree (PVC_REPO_SRC: seeded or
    # harmless changes on scratch copies) write theirs aside
    scratch = os.path.realpath(loader.REPO_SRC) != os.path.realpath("/repo/src")
    ev_dir = os.path.join(ROOT, "scratch", "evidence") if scratch else os.path.join(ROOT, "evidence")
    os.makedirs(ev_dir, exist_ok=True)
    with open(os.path.join(ev_dir, "%s.json" % prop), "w") as f:
        json.dump(ev, f, indent=1)
    print("%s: %d/%d tier-P obligations discharged, %d/%d bounded, %d functions, %d conformance replays, %.1fs -> exit %d"
          % (prop, n_dis, n_ob, n_bdis, n_b, len(functions), conform_runs, wall, rc))
    return rc


def _z3v():
    import z3

    return z3.get_version_string()


def update_lock(jobs):
    tasks = tasks_for(None)
    args = [(ci, gi, "quick", 0) for ci, gi in tasks]
    ctxm = mp.get_context("fork")
    results = run_tasks(args, jobs, _deadline("quick"))
    proved = set()
    for res in results:
        for ob in res["obligations"]:
            if ob["status"] == "proved":
                proved.add("%s|%s|%s" % (res["contract"], res["cfg"], run.base_name(ob["name"])))
    with open(os.path.join(ROOT, "obligations.lock.json"), "w") as f:
        json.dump(dict(note="obligation ids discharged on the pinned tree (generated by ./check --update-lock)",
                       proved=sorted(proved)), f, indent=0)
    print("ledger: %d obligation ids" % len(proved))


def do_replay(path):
    with open(path) as f:
        body = json.load(f)
    # contracts are looked up by name and configuration key (the registry may have grown since
    # the replay file was written)
    cands = [k for k in load_contracts() if k.name == body["contract"]]
    if not cands:
        print("replay: no contract named %r is registered any more" % body["contract"])
        return 3
    c = cands[0]
    cfgs = [g for g in c.configs() if run.cfg_key(g) == body["cfg"]]
    if not cfgs:
        print("replay: contract %r has no configuration %r any more" % (c.name, body["cfg"]))
        return 3
    cfg = cfgs[0]
    rp = body["replay"]
    if "case" in rp:
        harness.activate_native()
        bad = c.check_case(rp["case"], cfg)
        print("replay %s [%s]: case %s -> failed clauses %s" % (c.name, body["cfg"], json.dumps(rp["case"])[:400], bad))
        return 1 if bad else 0
    if not rp.get("found", True) and "values" not in rp:
        print("replay file carries no input (no-failing-input-found); obligation:", body["obligation"])
        print((rp.get("msg") or "")[:2000])
        return 0
    failures, exc, checked = run.replay_concrete(c, cfg, rp["sizes"], rp["values"])
    print("replay %s [%s]: %d checks, failures=%s exception=%s" % (c.name, body["cfg"], checked, failures, exc))
    return 1 if (failures or exc) else 0


def main(argv=None):
    import warnings

    warnings.simplefilter("ignore")  # the library warns e.g. when smoothing is impossible
    ap = argparse.ArgumentParser()
    ap.add_argument("prop", nargs="?")
    ap.add_argument("--tier", default=os.environ.get("VERIF_TIER", "quick"))
    ap.add_argument("--replay")
    ap.add_argument("--update-lock", action="store_true")
    ap.add_argument("--jobs", type=int, default=int(os.environ.get("PVC_JOBS", "16")))
    a = ap.parse_args(argv)
    seed = int(os.environ.get("VERIF_SEED", "0"))
    if a.replay:
        return do_replay(a.replay)
    if a.update_lock:
        update_lock(a.jobs)
        return 0
    if not a.prop:
        ap.error("property id required")
    return check_property(a.prop, a.tier, seed, a.jobs)


if __name__ == "__main__":
    sys.exit(main())
