"""Polynomial normal form over z3 arithmetic terms and the Sigma (finite sum) rules.

Sigma_{k<n} body(k) is lowered to an uninterpreted function of its free parts, after
  * linearity      Sigma(a*f + g) = a*Sigma f + Sigma g        (a free of the binders)
  * constant body  Sigma c = n*c
  * Fubini / product-of-independent-sums: nested sums are flattened to multi-binder sums,
    split into connected components and their binders numbered canonically
  * indicator form ite(c, x, y) = ind(c)*x + (1-ind(c))*y, ind(c)^2 = ind(c)
Two sums that are equal by these rules get the same UF applied to the same arguments, so
congruence closure in the SMT solver does the rest.  The rules themselves are proved in
lemmas/SigmaRules.lean.  Everything here is *sound but incomplete*: a missed match only
leaves an obligation undecided.
"""
from fractions import Fraction

import z3

from .core import OutOfReach, ctx, zr, zi, is_z3

_REAL = z3.RealSort()
_INT = z3.IntSort()

# ---------------------------------------------------------------------------------------
# binder bookkeeping

_BINDER_IDS = {}  # z3 id -> var


def new_binder(c, base="k"):
    v = c.fresh_int(base)
    _BINDER_IDS[v.get_id()] = v
    return v


_dep_cache = {}


def deps(e):
    """frozenset of binder-var ids occurring in e"""
    eid = e.get_id()
    r = _dep_cache.get(eid)
    if r is not None:
        return r
    if z3.is_const(e):
        r = frozenset([eid]) if eid in _BINDER_IDS else frozenset()
    elif z3.is_app(e):
        s = set()
        for ch in e.children():
            s |= deps(ch)
        r = frozenset(s)
    elif z3.is_quantifier(e):
        r = deps(e.body())
    else:
        r = frozenset()
    _dep_cache[eid] = r
    _keep.append(e)
    return r


_keep = []  # keep exprs alive so that ids are not recycled

# ---------------------------------------------------------------------------------------
# polynomials: dict mono -> Fraction ; mono = tuple of (atom_id, power) sorted by atom key

_atoms = {}  # id -> expr
_atom_key = {}  # id -> sort key string


def _akey(aid):
    k = _atom_key.get(aid)
    if k is None:
        k = _atoms[aid].sexpr()
        _atom_key[aid] = k
    return k


def _atom(e):
    aid = e.get_id()
    if aid not in _atoms:
        _atoms[aid] = e
    return aid


def _is_ind(e):
    return (
        z3.is_app_of(e, z3.Z3_OP_ITE)
        and e.sort() == _REAL
        and z3.is_rational_value(e.arg(1))
        and z3.is_rational_value(e.arg(2))
        and e.arg(1).as_fraction() == 1
        and e.arg(2).as_fraction() == 0
    )


def ind(c):
    return z3.If(c, z3.RealVal(1), z3.RealVal(0))


def p_const(c):
    c = Fraction(c)
    return {(): c} if c != 0 else {}


def p_atom(e):
    return {((_atom(e), 1),): Fraction(1)}


def p_add(a, b, sign=1):
    r = dict(a)
    for m, c in b.items():
        v = r.get(m, 0) + sign * c
        if v == 0:
            r.pop(m, None)
        else:
            r[m] = v
    return r


def _mono_mul(m1, m2):
    d = dict(m1)
    for a, p in m2:
        d[a] = d.get(a, 0) + p
    out = []
    for a, p in d.items():
        if _is_ind(_atoms[a]) and p > 1:
            p = 1
        out.append((a, p))
    out.sort(key=lambda ap: (_akey(ap[0]), ap[1]))
    return tuple(out)


def p_mul(a, b):
    r = {}
    for m1, c1 in a.items():
        for m2, c2 in b.items():
            m = _mono_mul(m1, m2)
            v = r.get(m, 0) + c1 * c2
            if v == 0:
                r.pop(m, None)
            else:
                r[m] = v
    if len(r) > 4000:
        raise OutOfReach("polynomial blow-up")
    return r


def p_scale(a, c):
    c = Fraction(c)
    if c == 0:
        return {}
    return {m: v * c for m, v in a.items()}


_poly_cache = {}


def to_poly(e):
    e = zr(e) if not is_z3(e) else e
    eid = e.get_id()
    r = _poly_cache.get(eid)
    if r is not None:
        return r
    r = _to_poly(e)
    _poly_cache[eid] = r
    _keep.append(e)
    return r


def _to_poly(e):
    if z3.is_int_value(e):
        return p_const(e.as_long())
    if z3.is_rational_value(e):
        return p_const(e.as_fraction())
    if not z3.is_app(e):
        return p_atom(e)
    k = e.decl().kind()
    ch = e.children()
    if k == z3.Z3_OP_TO_REAL:
        return to_poly(ch[0])
    if k == z3.Z3_OP_ADD:
        r = {}
        for c in ch:
            r = p_add(r, to_poly(c))
        return r
    if k == z3.Z3_OP_SUB:
        r = to_poly(ch[0])
        for c in ch[1:]:
            r = p_add(r, to_poly(c), -1)
        return r
    if k == z3.Z3_OP_UMINUS:
        return p_scale(to_poly(ch[0]), -1)
    if k == z3.Z3_OP_MUL:
        r = p_const(1)
        for c in ch:
            r = p_mul(r, to_poly(c))
        return r
    if k == z3.Z3_OP_DIV and e.sort() == _REAL:
        num = to_poly(ch[0])
        den = to_poly(ch[1])
        return p_mul(num, p_inv(den))
    if k == z3.Z3_OP_POWER:
        if z3.is_int_value(ch[1]) or (
            z3.is_rational_value(ch[1]) and ch[1].as_fraction().denominator == 1
        ):
            n = int(ch[1].as_fraction()) if not z3.is_int_value(ch[1]) else ch[1].as_long()
            if 0 <= n <= 6:
                r = p_const(1)
                b = to_poly(ch[0])
                for _ in range(n):
                    r = p_mul(r, b)
                return r
        return p_atom(e)
    if k == z3.Z3_OP_ITE and e.sort() in (_REAL, _INT):
        c, a, b = ch
        if z3.is_not(c):
            c, a, b = c.arg(0), b, a
        ic = p_atom(ind(c))
        pa, pb = to_poly(a), to_poly(b)
        # ind*a + (1-ind)*b
        return p_add(p_mul(ic, p_add(pa, pb, -1)), pb)
    return p_atom(e)


def p_inv(den):
    """polynomial for 1/den"""
    if not den:
        # division by literal zero: keep as an opaque atom
        return p_atom(z3.RealVal(1) / z3.RealVal(0))
    if len(den) == 1:
        ((m, c),) = den.items()
        r = p_const(1 / c)
        for a, p in m:
            ae = _atoms[a]
            if z3.is_app_of(ae, z3.Z3_OP_DIV) and z3.is_rational_value(ae.arg(0)) and ae.arg(
                0
            ).as_fraction() == 1:
                # 1/(1/x) is not x when x == 0 ; keep nested
                inv_atom = z3.RealVal(1) / ae
            else:
                inv_atom = z3.RealVal(1) / _as_real(ae)
            ia = p_atom(inv_atom)
            for _ in range(p):
                r = p_mul(r, ia)
        return r
    return p_atom(z3.RealVal(1) / poly_expr(den))


def _as_real(e):
    return z3.ToReal(e) if e.sort() == _INT else e


def mono_expr(m):
    fs = []
    for a, p in m:
        ae = _as_real(_atoms[a])
        for _ in range(p):
            fs.append(ae)
    if not fs:
        return z3.RealVal(1)
    if len(fs) == 1:
        return fs[0]
    return z3.Product(*fs) if hasattr(z3, "Product") else _prod(fs)


def _prod(fs):
    r = fs[0]
    for f in fs[1:]:
        r = r * f
    return r


def _frac_val(c):
    return z3.RealVal(str(c))


def poly_expr(p):
    if not p:
        return z3.RealVal(0)
    terms = []
    for m in sorted(p.keys(), key=lambda m: tuple((_akey(a), q) for a, q in m)):
        c = p[m]
        if not m:
            terms.append(_frac_val(c))
        elif c == 1:
            terms.append(mono_expr(m))
        else:
            terms.append(_frac_val(c) * mono_expr(m))
    if len(terms) == 1:
        return terms[0]
    return z3.Sum(*terms)


def normalise(e):
    """canonical z3 real expr of e"""
    return poly_expr(to_poly(e))


# ---------------------------------------------------------------------------------------
# Sigma

class SigmaInfo:
    __slots__ = ("name", "fn", "nb", "tmpl", "bvars", "pvars", "key")

    def __init__(self, name, fn, nb, tmpl, bvars, pvars, key):
        self.name, self.fn, self.nb, self.tmpl = name, fn, nb, tmpl
        self.bvars, self.pvars, self.key = bvars, pvars, key


_SIGMAS = {}  # key -> SigmaInfo
_SIGMA_BY_NAME = {}


def sigma_registry():
    return _SIGMA_BY_NAME


def _ph(kind, i, sort):
    return z3.Const("%s%d" % (kind, i), sort)


def _anon_key(e, bset, memo):
    """string key of e with binders -> '#', maximal binder-free subterms -> '?sort'"""
    eid = e.get_id()
    k = memo.get(eid)
    if k is not None:
        return k
    d = deps(e)
    if not (d & bset):
        k = "?" + e.sort().name()
    elif z3.is_const(e):
        k = "#"
    else:
        k = "(" + e.decl().name() + " " + " ".join(_anon_key(c, bset, memo) for c in e.children()) + ")"
    memo[eid] = k
    return k


def _template(e, bset, border, params, memo):
    """rebuild e with binders -> #b<i> (numbered by first occurrence), binder-free -> ?p<j>"""
    d = deps(e)
    if not (d & bset):
        j = len(params)
        params.append(e)
        return _ph("?p", j, e.sort())
    if z3.is_const(e):
        eid = e.get_id()
        if eid not in border:
            border[eid] = len(border)
        return _ph("#b", border[eid], _INT)
    ch = [_template(c, bset, border, params, memo) for c in e.children()]
    return e.decl()(*ch)


def _sigma_component(binders, atoms):
    """binders: list of (var, n_raw); atoms: list of (atom_id, power); all connected.
    returns z3 real expr: UF application."""
    bset = frozenset(v.get_id() for v, _ in binders)
    memo = {}
    keyed = sorted(atoms, key=lambda ap: (_anon_key(_atoms[ap[0]], bset, memo), ap[1]))
    border, params = {}, []
    tparts = []
    for a, p in keyed:
        t = _template(_as_real(_atoms[a]), bset, border, params, memo)
        for _ in range(p):
            tparts.append(t)
    tmpl = _prod(tparts) if len(tparts) > 1 else tparts[0]
    # binder order
    bs = sorted(binders, key=lambda vn: border[vn[0].get_id()])
    ranges = [zi(n) for _, n in bs]
    key = tmpl.sexpr() + "|" + ",".join(p.sort().name() for p in params)
    info = _SIGMAS.get(key)
    if info is None:
        name = "Sigma%d" % len(_SIGMAS)
        sorts = [_INT] * len(bs) + [p.sort() for p in params] + [_REAL]
        fn = z3.Function(name, *sorts)
        info = SigmaInfo(
            name,
            fn,
            len(bs),
            tmpl,
            [_ph("#b", i, _INT) for i in range(len(bs))],
            [_ph("?p", j, p.sort()) for j, p in enumerate(params)],
            key,
        )
        _SIGMAS[key] = info
        _SIGMA_BY_NAME[name] = info
    return info.fn(*(ranges + params))


def unfold(app, c):
    """Sigma-UF application -> (binders [(var, n)], body expr) with fresh binder vars"""
    info = _SIGMA_BY_NAME[app.decl().name()]
    args = app.children()
    ranges, params = args[: info.nb], args[info.nb :]
    bvars = [new_binder(c, "u") for _ in range(info.nb)]
    subs = list(zip(info.bvars, bvars)) + list(zip(info.pvars, params))
    body = z3.substitute(info.tmpl, *subs) if subs else info.tmpl
    return list(zip(bvars, ranges)), body


def is_sigma_app(e):
    return z3.is_app(e) and e.decl().kind() == z3.Z3_OP_UNINTERPRETED and e.decl().name() in _SIGMA_BY_NAME


def multi_sigma(binders, body, c=None):
    """Sum over all binders (list of (var, n_raw)) of body (z3 real expr) -> z3 real expr"""
    c = c or ctx()
    poly = to_poly(body)
    total = {}
    all_ids = {v.get_id(): (v, n) for v, n in binders}
    for m, coef in poly.items():
        outer = p_const(coef)
        inner = []
        for a, p in m:
            if deps(_atoms[a]) & all_ids.keys():
                inner.append((a, p))
            else:
                outer = p_mul(outer, {((a, p),): Fraction(1)})
        # unfold nested sums occurring with power 1
        nested = [
            (a, p) for a, p in inner if p == 1 and is_sigma_app(_atoms[a])
        ]
        if nested:
            a0 = nested[0][0]
            nb, nbody = unfold(_atoms[a0], c)
            rest = [(a, p) for a, p in inner if a != a0]
            rest_e = mono_expr(tuple(rest))
            sub = multi_sigma(list(binders) + nb, rest_e * nbody, c)
            total = p_add(total, p_mul(outer, to_poly(sub)))
            continue
        used = set()
        for a, p in inner:
            used |= deps(_atoms[a]) & all_ids.keys()
        # binders not occurring: multiply by their range
        for bid, (v, n) in all_ids.items():
            if bid not in used:
                outer = p_mul(outer, to_poly(zr(n)))
        if not inner:
            total = p_add(total, outer)
            continue
        # connected components
        comps = []  # list of (set(binder ids), [atoms])
        for a, p in inner:
            d = set(deps(_atoms[a]) & all_ids.keys())
            merged_atoms = [(a, p)]
            keep = []
            for bs, ats in comps:
                if bs & d:
                    d |= bs
                    merged_atoms = ats + merged_atoms
                else:
                    keep.append((bs, ats))
            keep.append((d, merged_atoms))
            comps = keep
        term = outer
        for bs, ats in comps:
            app = _sigma_component([all_ids[b] for b in bs], ats)
            term = p_mul(term, p_atom(app))
        total = p_add(total, term)
    return poly_expr(total)


def flatten_sigmas(e, c=None):
    """Re-normalise e (re-associates nested Sigma applications)."""
    return normalise(e)


# ---------------------------------------------------------------------------------------
# rational normal form: e == P/Q with P, Q polynomials (field identities without NRA)


_rat_cache = {}


def to_rat(e):
    eid = e.get_id()
    r = _rat_cache.get(eid)
    if r is None:
        r = _to_rat(e)
        _rat_cache[eid] = r
        _keep.append(e)
    return r


_ONE = {(): Fraction(1)}


def _rat_add(a, b, sign=1):
    (p1, q1), (p2, q2) = a, b
    if q1 == q2:
        return (p_add(p1, p2, sign), q1)
    return (p_add(p_mul(p1, q2), p_mul(p2, q1), sign), p_mul(q1, q2))


def _rat_mul(a, b):
    return (p_mul(a[0], b[0]), p_mul(a[1], b[1]))


def _to_rat(e):
    if z3.is_int_value(e):
        return (p_const(e.as_long()), _ONE)
    if z3.is_rational_value(e):
        return (p_const(e.as_fraction()), _ONE)
    if not z3.is_app(e):
        return (p_atom(e), _ONE)
    k = e.decl().kind()
    ch = e.children()
    if k == z3.Z3_OP_TO_REAL:
        return to_rat(ch[0])
    if k == z3.Z3_OP_ADD:
        r = ({}, _ONE)
        for c in ch:
            r = _rat_add(r, to_rat(c))
        return r
    if k == z3.Z3_OP_SUB:
        r = to_rat(ch[0])
        for c in ch[1:]:
            r = _rat_add(r, to_rat(c), -1)
        return r
    if k == z3.Z3_OP_UMINUS:
        p, q = to_rat(ch[0])
        return (p_scale(p, -1), q)
    if k == z3.Z3_OP_MUL:
        r = (_ONE, _ONE)
        for c in ch:
            r = _rat_mul(r, to_rat(c))
        return r
    if k == z3.Z3_OP_DIV and e.sort() == _REAL:
        (p1, q1), (p2, q2) = to_rat(ch[0]), to_rat(ch[1])
        return (p_mul(p1, q2), p_mul(q1, p2))
    if k == z3.Z3_OP_POWER and (z3.is_int_value(ch[1]) or z3.is_rational_value(ch[1])):
        f = ch[1].as_fraction() if not z3.is_int_value(ch[1]) else Fraction(ch[1].as_long())
        if f.denominator == 1 and 0 <= f <= 6:
            r = (_ONE, _ONE)
            b = to_rat(ch[0])
            for _ in range(int(f)):
                r = _rat_mul(r, b)
            return r
        return (p_atom(e), _ONE)
    if k == z3.Z3_OP_ITE and e.sort() in (_REAL, _INT):
        c, a, b = ch
        if z3.is_not(c):
            c, a, b = c.arg(0), b, a
        ic = (p_atom(ind(c)), _ONE)
        ra, rb = to_rat(a), to_rat(b)
        # ind*a + (1-ind)*b  = ind*(a-b) + b
        return _rat_add(_rat_mul(ic, _rat_add(ra, rb, -1)), rb)
    return (p_atom(e), _ONE)


def field_identity(a, b):
    """True iff a == b is an identity of rational functions (valid wherever every divisor
    occurring in a or b is non-zero)."""
    try:
        (p1, q1), (p2, q2) = to_rat(a), to_rat(b)
        d = p_add(p_mul(p1, q2), p_mul(p2, q1), -1)
    except OutOfReach:
        return False
    return not d


def canon_rat(e):
    """canonical z3 expr of e as a quotient of two normalised polynomials.  Equal to e
    wherever every divisor occurring in e is non-zero."""
    p, q = to_rat(e)
    if q == _ONE:
        return poly_expr(p)
    return poly_expr(p) / poly_expr(q)


def ind_conditions(*exprs):
    """conditions c of indicator atoms If(c,1,0) / ite terms occurring in the exprs"""
    out = {}
    stack = list(exprs)
    seen = set()
    while stack:
        t = stack.pop()
        if t.get_id() in seen:
            continue
        seen.add(t.get_id())
        if z3.is_app(t):
            if t.decl().kind() == z3.Z3_OP_ITE:
                c = t.arg(0)
                while z3.is_not(c):
                    c = c.arg(0)
                out[c.get_id()] = c
            if is_sigma_app(t):
                # binder-free boolean parameters of a sum (conditions inside its summand)
                for a in t.children():
                    if z3.is_bool(a) and not z3.is_true(a) and not z3.is_false(a):
                        c = a
                        while z3.is_not(c):
                            c = c.arg(0)
                        out[c.get_id()] = c
            stack.extend(t.children())
    return list(out.values())


class _Fresh:
    def __init__(self):
        self.n = 0

    def fresh_int(self, base="k"):
        self.n += 1
        return z3.Int("%s!rs%d" % (base, self.n))


def resigma(e, fc=None, depth=0):
    """re-normalise every Sigma application inside e (after its parameters were simplified,
    e.g. a condition replaced by True/False): unfold, simplify the summand, sum again"""
    fc = fc or _Fresh()
    if not z3.is_app(e) or depth > 6:
        return e
    ch = [resigma(c, fc, depth + 1) for c in e.children()]
    if is_sigma_app(e):
        app = e.decl()(*ch) if ch else e
        binders, body = unfold(app, fc)
        body = z3.simplify(resigma(body, fc, depth + 1))
        try:
            return multi_sigma(binders, body, fc)
        except OutOfReach:
            return app
    if not ch:
        return e
    try:
        return e.decl()(*ch)
    except Exception:
        return e


def certify_equal_by_cases(a, b, feasible, max_conds=7):
    """Decide a == b as rational functions under every feasible truth assignment of the
    ite-conditions occurring in them.  `feasible(assignment)` -> bool prunes impossible
    cases.  Returns list of (assignment [(cond, bool)], ok)  or None if too many conditions."""
    conds = ind_conditions(a, b)
    if len(conds) > max_conds:
        return None
    results = []

    def rec(i, assign):
        if i == len(conds):
            subs = [(c, z3.BoolVal(v)) for c, v in assign]
            a2 = z3.simplify(z3.substitute(a, *subs)) if subs else a
            b2 = z3.simplify(z3.substitute(b, *subs)) if subs else b
            ok = a2.eq(b2) or field_identity(a2, b2)
            if not ok and subs:
                a3, b3 = resigma(a2), resigma(b2)
                ok = a3.eq(b3) or field_identity(a3, b3)
            results.append((list(assign), ok))
            return
        for v in (True, False):
            assign.append((conds[i], v))
            if feasible(assign):
                rec(i + 1, assign)
            assign.pop()

    rec(0, [])
    return results
