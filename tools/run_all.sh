#!/bin/sh
# run every property check on the current trees; summary lines to stdout
#   tools/run_all.sh [quick|thorough]
tier=${1:-quick}
cd /verif
for p in C01 C02 C03 C04 C05 C06 C07 C08 C09 C10 C11 C12 C13 C14 C15 C16 C17 C18 C19 C20; do
  ./check $p --tier $tier 2>&1 | grep -E "^(VIOLATION|KNOWN-FINDING|UNDECIDED|CHECKER-CRASH|C[0-9][0-9]:)" | cut -c1-300
done
