"""End-to-end bounded stand-in (tier E) through the public API: a cube response is
*tabulated from respondent-level data* (A-RESP made executable) and every public measure of
every partition is compared with the value computed from the respondents directly, from
the statements of C01, C02, C03, C06, C09, C10, C16 (and C04's merge-equivalence, C05's
transform-invariance).  This closes the loop over the modular cuts of the tier-P contracts:
it exercises the real composition Cube -> CubePartition -> SecondOrderMeasures -> measure
classes -> assembler.
"""
import copy
import itertools
import math
import random

from pvc.harness import EnumContract, REGISTRY

SEL, OTH, MIS = 0, 1, 2


# ---------------------------------------------------------------------------------------
# respondent-level data and its tabulation


def gen_dim(rnd, kind, name):
    if kind == "MR":
        n = rnd.choice([1, 2, 3])
        return dict(kind="MR", name=name, n=n)
    n = rnd.choice([1, 2, 3, 4])
    cats = [dict(id=i + 1, missing=rnd.random() < 0.25) for i in range(n)]
    if all(c["missing"] for c in cats):
        cats[rnd.randrange(n)]["missing"] = False
    d = dict(kind=kind, name=name, cats=cats)
    if rnd.random() < 0.25:
        # typedef "order": the data along this dimension is in `cats` order, while the
        # typedef lists the categories in a different (document) order
        doc = list(range(n))
        rnd.shuffle(doc)
        d["doc_order"] = doc
    return d


def gen_respondents(rnd, dims, nresp, weighted):
    rs = []
    for _ in range(nresp):
        ans = []
        for d in dims:
            if d["kind"] == "MR":
                ans.append([rnd.choice([SEL, OTH, OTH, MIS]) for _ in range(d["n"])])
            else:
                ans.append(rnd.randrange(len(d["cats"])))
        w = rnd.choice([0.0, 0.5, 1.0, 1.0, 1.5, 2.25]) if weighted else 1.0
        rs.append(dict(a=ans, w=w))
    return rs


def dim_json(d):
    if d["kind"] == "MR":
        subs = [dict(alias="%s_%d" % (d["name"], i), name="item%d" % i) for i in range(d["n"])]
        els = [
            {"id": i + 1, "missing": False, "value": {"id": "%04d" % i, "derived": False, "references": subs[i]}}
            for i in range(d["n"])
        ]
        refs = {"alias": d["name"], "name": d["name"].upper(), "subreferences": subs}
        return [
            {"type": {"class": "enum", "elements": els, "subtype": {"class": "variable"}}, "references": refs},
            {
                "type": {
                    "class": "categorical",
                    "categories": [
                        {"id": 1, "name": "Selected", "selected": True, "missing": False},
                        {"id": 0, "name": "Other", "missing": False},
                        {"id": -1, "name": "No Data", "missing": True},
                    ],
                },
                "references": refs,
            },
        ]
    cats = []
    for k, c in enumerate(d["cats"]):
        cat = {"id": c["id"], "name": "%s%d" % (d["name"], c["id"]), "missing": c["missing"], "numeric_value": c.get("nv")}
        if d["kind"] == "CAT_DATE":
            cat["date"] = "2020-%02d" % (k + 1)
        cats.append(cat)
    typedef = {"class": "categorical", "categories": cats}
    if d.get("doc_order"):
        typedef = {"class": "categorical", "categories": [cats[k] for k in d["doc_order"]], "order": [c["id"] for c in cats]}
    refs = {"alias": d["name"], "name": d["name"].upper()}
    if d.get("view_insertions"):
        # insertions saved on the variable: displayed unless the analysis supplies its own
        refs["view"] = {"transform": {"insertions": copy.deepcopy(d["view_insertions"])}}
    return [{"type": typedef, "references": refs}]


def axes_of(d):
    return [d["n"], 3] if d["kind"] == "MR" else [len(d["cats"])]


def tabulate(dims, rs, weighted):
    shape = []
    for d in dims:
        shape += axes_of(d)
    size = 1
    for s in shape:
        size *= s
    unw, wgt = [0.0] * size, [0.0] * size

    def add(idx_lists, w):
        for idx in itertools.product(*idx_lists):
            flat = 0
            for i, s in zip(idx, shape):
                flat = flat * s + i
            unw[flat] += 1
            wgt[flat] += w

    for r in rs:
        # each respondent falls in exactly one category of a CAT dim and, per MR item, in
        # exactly one state: an MR dim contributes (item, state) for *every* item
        per_dim = []
        for d, a in zip(dims, r["a"]):
            if d["kind"] == "MR":
                per_dim.append([(i, a[i]) for i in range(d["n"])])
            else:
                per_dim.append([(a,)])
        for combo in itertools.product(*per_dim):
            idx = []
            for c in combo:
                idx += list(c)
            add([[i] for i in idx], r["w"])
    n = len(rs)
    res = {
        "dimensions": [j for d in dims for j in dim_json(d)],
        "counts": [int(x) for x in unw],
        "measures": {"count": {"data": wgt if weighted else [int(x) for x in unw], "n_missing": 0}},
        "n": n,
        "missing": 0,
        "filtered": {"unweighted_n": n, "weighted_n": sum(r["w"] for r in rs)},
        "unfiltered": {"unweighted_n": n, "weighted_n": sum(r["w"] for r in rs)},
    }
    return {"result": res}


# ---------------------------------------------------------------------------------------
# oracle: membership predicates on respondents


def valid_elems(d):
    if d["kind"] == "MR":
        return list(range(d["n"]))
    return [k for k, c in enumerate(d["cats"]) if not c["missing"]]


def member(d, a, e):
    """respondent with answer a belongs to (valid) element e of dimension d"""
    return a[e] == SEL if d["kind"] == "MR" else a == e


def valid_on(d, a, e):
    """respondent has a valid answer on dimension d (for MR / array: on item e)"""
    return a[e] != MIS if d["kind"] == "MR" else not d["cats"][a]["missing"]


def wsum(rs, pred, weighted=True):
    return math.fsum((r["w"] if weighted else 1.0) for r in rs if pred(r))


def div(a, b):
    return a / b if b != 0 else float("nan")


def oracle_2d(rd, cd, rs, weighted, ri=0, ci=1):
    R, C = valid_elems(rd), valid_elems(cd)
    o = {}

    def grid(f):
        return [[f(i, j) for j in C] for i in R]

    o["counts"] = grid(lambda i, j: wsum(rs, lambda r: member(rd, r["a"][ri], i) and member(cd, r["a"][ci], j), weighted))
    o["row_bases"] = grid(lambda i, j: wsum(rs, lambda r: member(rd, r["a"][ri], i) and valid_on(cd, r["a"][ci], j), weighted))
    o["col_bases"] = grid(lambda i, j: wsum(rs, lambda r: valid_on(rd, r["a"][ri], i) and member(cd, r["a"][ci], j), weighted))
    o["table_bases"] = grid(lambda i, j: wsum(rs, lambda r: valid_on(rd, r["a"][ri], i) and valid_on(cd, r["a"][ci], j), weighted))
    return o


def close(a, b, tol=1e-9):
    import numpy as np

    a, b = np.asarray(a, dtype=float), np.asarray(b, dtype=float)
    if a.shape != b.shape:
        return False
    return bool(np.allclose(a, b, rtol=tol, atol=1e-12, equal_nan=True))


def gen_case(rnd):
    kinds = [rnd.choice(["CAT", "CAT", "MR", "CAT_DATE"]) for _ in range(rnd.choice([2, 2, 2, 3]))]
    dims = [gen_dim(rnd, k, "abc"[i]) for i, k in enumerate(kinds)]
    weighted = rnd.random() < 0.6
    rs = gen_respondents(rnd, dims, rnd.choice([0, 3, 8, 15, 25]), weighted)
    tr = {}
    for side, d in (("rows_dimension", dims[-2]), ("columns_dimension", dims[-1])):
        t = {}
        if d["kind"] != "MR":
            ids = [c["id"] for c in d["cats"]]
            if rnd.random() < 0.5:
                ins = []
                for k in range(rnd.choice([1, 1, 2])):
                    pos = rnd.sample(ids, rnd.choice([1, min(2, len(ids))]))
                    if rnd.random() < 0.2:
                        pos = list(ids)  # a subtotal spanning the whole dimension (its vector is the margin)
                    one = {"function": "subtotal", "name": "s%d" % k, "anchor": rnd.choice(["top", "bottom"] + ids), "args": pos, "id": k + 1}
                    if rnd.random() < 0.3:
                        one = {"function": "subtotal", "name": "d%d" % k, "anchor": rnd.choice(["top", "bottom"] + ids),
                               "kwargs": {"positive": pos, "negative": [rnd.choice(ids)]}, "id": k + 1}
                    ins.append(one)
                t["insertions"] = ins
            if rnd.random() < 0.3:
                t["elements"] = {str(rnd.choice(ids)): {"hide": True}}
            if rnd.random() < 0.3:
                t["order"] = {"type": "explicit", "element_ids": rnd.sample(ids, len(ids))}
        else:
            # array items referenced by numeric element id (int or string) or by alias (C19)
            def spell(i):
                return rnd.choice([i + 1, str(i + 1), "%s_%d" % (d["name"], i)])

            if rnd.random() < 0.3:
                t["order"] = {"type": "explicit", "element_ids": [spell(i) for i in rnd.sample(range(d["n"]), d["n"])]}
            if rnd.random() < 0.25:
                t["elements"] = {str(spell(rnd.randrange(d["n"]))): {"hide": True}}
        if rnd.random() < 0.4:
            t["prune"] = True
        if t:
            tr[side] = t
    return dict(dims=dims, rs=rs, weighted=weighted, transforms=tr)


class EndToEnd(EnumContract):
    name = "e2e:Cube(response tabulated from respondents) vs first principles"
    props = ("C01", "C02", "C03", "C04", "C05", "C06", "C09", "C10", "C11", "C12", "C16", "C17")
    bound = "2-D and 3-D responses over CAT / CAT_DATE / MR dimensions, <= 4 categories (missing ones anywhere) or <= 3 items, <= 25 respondents with fractional weights, random subtotals / differences / hide / prune / explicit order; seeded sample"
    clauses = (
        "counts", "unweighted-counts", "row-bases", "column-bases", "table-bases", "proportions",
        "margins", "pruning", "payload-order-visibility", "column-index", "zscores", "std-err", "population", "partition-restriction", "transposition",
        "transform-invariance", "subtotal-merge", "shape-and-labels",
    )

    def cases(self, cfg, seed, thorough):
        rnd = random.Random(5000 + seed)
        for _ in range(2500 if thorough else 260):
            yield gen_case(rnd)

    # -- helpers
    def _cube(self, dims, rs, weighted, transforms=None):
        from cr.cube.cube import Cube

        return Cube(tabulate(dims, rs, weighted), transforms=copy.deepcopy(transforms) if transforms else None, population=1000)

    def check_case(self, case, cfg):
        import numpy as np
        import warnings

        warnings.simplefilter("ignore")
        dims, rs, weighted, tr = case["dims"], case["rs"], case["weighted"], case["transforms"]
        bad = set()
        cube = self._cube(dims, rs, weighted)
        parts = cube.partitions
        rd, cd = dims[-2], dims[-1]
        ri, ci = len(dims) - 2, len(dims) - 1
        if len(dims) == 3:
            td = dims[0]
            T = valid_elems(td)
            if len(parts) != len(T):
                bad.add("partition-restriction")
                return sorted(bad)
            subsets = [[r for r in rs if member(td, r["a"][0], k)] for k in T]
        else:
            subsets = [rs]
            if len(parts) != 1:
                bad.add("partition-restriction")
                return sorted(bad)
        R, C = valid_elems(rd), valid_elems(cd)
        for p, sub in zip(parts, subsets):
            ow = oracle_2d(rd, cd, sub, True, ri, ci)
            ou = oracle_2d(rd, cd, sub, False, ri, ci)
            if not R or not C:
                continue
            if not close(p.counts, ow["counts"]):
                bad.add("counts")
            if rd["kind"] != "MR" and list(p.row_labels) != ["%s%d" % (rd["name"], rd["cats"][i]["id"]) for i in R]:
                bad.add("shape-and-labels")
            if cd["kind"] != "MR" and list(p.column_labels) != ["%s%d" % (cd["name"], cd["cats"][j]["id"]) for j in C]:
                bad.add("shape-and-labels")
            if not close(p.unweighted_counts, ou["counts"]):
                bad.add("unweighted-counts")
            if not (close(p.row_weighted_bases, ow["row_bases"]) and close(p.row_unweighted_bases, ou["row_bases"])):
                bad.add("row-bases")
            if not (close(p.column_weighted_bases, ow["col_bases"]) and close(p.column_unweighted_bases, ou["col_bases"])):
                bad.add("column-bases")
            if not (close(p.table_weighted_bases, ow["table_bases"]) and close(p.table_unweighted_bases, ou["table_bases"])):
                bad.add("table-bases")
            cnt = np.array(ow["counts"])
            with np.errstate(all="ignore"):
                if not (close(p.row_proportions, cnt / np.array(ow["row_bases"]))
                        and close(p.column_proportions, cnt / np.array(ow["col_bases"]))
                        and close(p.table_proportions, cnt / np.array(ow["table_bases"]))
                        and close(p.column_percentages, 100 * cnt / np.array(ow["col_bases"]))):
                    bad.add("proportions")
            # C11: variance p(1-p), std-dev, std-error sqrt(var / weighted base), MoE 1.959964 x
            try:
                with np.errstate(all="ignore"):
                    for d_, base_ in (("row", np.array(ow["row_bases"])), ("column", np.array(ow["col_bases"])), ("table", np.array(ow["table_bases"]))):
                        pp = cnt / base_
                        var = pp * (1 - pp)
                        if not (close(getattr(p, d_ + "_proportion_variances"), var, 1e-7)
                                and close(getattr(p, d_ + "_std_dev"), np.sqrt(var), 1e-7)
                                and close(getattr(p, d_ + "_std_err"), np.sqrt(var / base_), 1e-7)
                                and close(getattr(p, d_ + "_proportions_moe"), 1.959964 * np.sqrt(var / base_), 1e-7)):
                            bad.add("std-err")
            except Exception:
                bad.add("std-err")
            # C17: population estimate = proportion (within each date for a categorical-date
            # dimension, rows first; else table proportion) x population x filtered fraction
            try:
                with np.errstate(all="ignore"):
                    if rd["kind"] == "CAT_DATE":
                        pp, sb = cnt / np.array(ow["row_bases"]), np.array(ow["row_bases"])
                    elif cd["kind"] == "CAT_DATE":
                        pp, sb = cnt / np.array(ow["col_bases"]), np.array(ow["col_bases"])
                    else:
                        pp, sb = cnt / np.array(ow["table_bases"]), np.array(ow["table_bases"])
                    frac = 1.0 if math.fsum(r["w"] for r in rs) != 0 else float("nan")
                    if not close(p.population_counts, pp * 1000 * frac, 1e-7):
                        bad.add("population")
                    if not close(p.population_counts_moe, 1.959964 * 1000 * frac * np.sqrt(pp * (1 - pp) / sb), 1e-7):
                        bad.add("population")
            except Exception:
                bad.add("population")
            # margins: collapsed per-cell bases (1-D when the opposing dimension is CAT)
            rb, cb, tb = np.array(ow["row_bases"]), np.array(ow["col_bases"]), np.array(ow["table_bases"])
            exp_rm = rb[:, 0] if cd["kind"] != "MR" else rb
            exp_cm = cb[0, :] if rd["kind"] != "MR" else cb
            if not (close(p.rows_margin, exp_rm) and close(p.columns_margin, exp_cm)):
                bad.add("margins")
            urb, ucb = np.array(ou["row_bases"]), np.array(ou["col_bases"])
            if not (close(p.rows_base, urb[:, 0] if cd["kind"] != "MR" else urb) and close(p.columns_base, ucb[0, :] if rd["kind"] != "MR" else ucb)):
                bad.add("margins")
            if rd["kind"] != "MR" and cd["kind"] != "MR":
                if not (close(p.table_margin, tb[0, 0]) and close(p.table_base, np.array(ou["table_bases"])[0, 0])):
                    bad.add("margins")
            if not close(p.table_margin_range, [tb.min(), tb.max()]):
                bad.add("margins")
            # C12: adjusted standardized residual from the cell's own bases; p = 2(1 - Phi(|z|));
            # NaN everywhere without two independent rows and columns
            try:
                from scipy.stats import norm

                with np.errstate(all="ignore"):
                    exp_c = rb * cb / tb
                    var = exp_c * (1 - rb / tb) * (1 - cb / tb)
                    z_exp = (cnt - exp_c) / np.sqrt(var)
                got_z = np.asarray(p.zscores, dtype=float)
                got_p = np.asarray(p.pvals, dtype=float)
                # the stacked form carries the same two arrays (p-values first)
                stacked = np.asarray(p.residual_test_stats, dtype=float)
                if stacked.shape != (2,) + got_z.shape or not (
                    np.array_equal(stacked[0], got_p, equal_nan=True) and np.array_equal(stacked[1], got_z, equal_nan=True)
                ):
                    bad.add("zscores")
                if min(cnt.shape) < 2 or np.linalg.matrix_rank(cnt) < 2:
                    if not (np.all(np.isnan(got_z)) and np.all(np.isnan(got_p))):
                        bad.add("zscores")
                else:
                    ok_cells = np.isfinite(z_exp) & (np.abs(var) > 1e-9)  # exact-arithmetic 0/0 cells: float noise
                    if got_z.shape != z_exp.shape or not np.allclose(got_z[ok_cells], z_exp[ok_cells], rtol=1e-6, atol=1e-9):
                        bad.add("zscores")
                    pe = 2 * (1 - norm.cdf(np.abs(z_exp)))
                    if not np.allclose(got_p[ok_cells], pe[ok_cells], rtol=1e-6, atol=1e-9):
                        bad.add("zscores")
                    if np.any((got_p[ok_cells] < 0) | (got_p[ok_cells] > 1)):
                        bad.add("zscores")
            except Exception:
                bad.add("zscores")
            # column index: 100 * column proportion / unconditional row share
            share = []
            for i in R:
                row = []
                for j in C:
                    if cd["kind"] == "MR":
                        anyc = lambda r, j=j: True
                    else:
                        anyc = lambda r: True
                    mem = wsum(sub, lambda r: member(rd, r["a"][ri], i))
                    elig = wsum(sub, lambda r: valid_on(rd, r["a"][ri], i) if rd["kind"] == "MR" else not rd["cats"][r["a"][ri]]["missing"])
                    row.append(div(mem, elig))
                share.append(row)
            with np.errstate(all="ignore"):
                exp_idx = 100 * (cnt / cb) / np.array(share)
            try:
                if not close(p.column_index, exp_idx, 1e-7):
                    bad.add("column-index")
            except Exception:
                bad.add("column-index")
        # ---- 3-D: partition k == the 2-D analysis of the restricted respondents (C06)
        if len(dims) == 3:
            for p, sub in zip(parts, subsets):
                q = self._cube(dims[1:], [dict(a=r["a"][1:], w=r["w"]) for r in sub], weighted).partitions[0]
                for name in ("counts", "row_proportions", "column_proportions", "table_proportions", "rows_margin",
                             "columns_margin", "column_weighted_bases", "row_unweighted_bases", "zscores", "column_index"):
                    try:
                        if not close(getattr(p, name), getattr(q, name), 1e-7):
                            bad.add("partition-restriction")
                    except Exception:
                        bad.add("partition-restriction")
        # ---- transposition (C10), 2-D
        if len(dims) == 2:
            tdims = [dims[1], dims[0]]
            trs = [dict(a=[r["a"][1], r["a"][0]], w=r["w"]) for r in rs]
            p = parts[0]
            q = self._cube(tdims, trs, weighted).partitions[0]
            pairs = [("counts", "counts", True), ("row_proportions", "column_proportions", True), ("column_proportions", "row_proportions", True),
                     ("table_proportions", "table_proportions", True), ("rows_margin", "columns_margin", False),
                     ("row_weighted_bases", "column_weighted_bases", True), ("row_unweighted_bases", "column_unweighted_bases", True),
                     ("zscores", "zscores", True), ("pvals", "pvals", True), ("row_std_err", "column_std_err", True),
                     ("table_std_err", "table_std_err", True), ("population_counts", "population_counts", True)]
            if dims[0]["kind"] == "CAT_DATE" and dims[1]["kind"] == "CAT_DATE":
                # two date dimensions: "within each date" is resolved rows-first (C17), which is
                # not symmetric under transposition -- outside the statement of C10
                pairs = [x for x in pairs if x[0] != "population_counts"]
            for a, b, mat in pairs:
                try:
                    x, y = np.asarray(getattr(p, a), dtype=float), np.asarray(getattr(q, b), dtype=float)
                    if not close(x, y.T if (mat or y.ndim == 2) else y, 1e-7):
                        bad.add("transposition")
                except Exception:
                    bad.add("transposition")
        # ---- transforms only select and reorder (C05) + subtotals as merged categories (C04)
        if tr:
            try:
                tcube = self._cube(dims, rs, weighted, tr)
                for k_, (p0, pt) in enumerate(zip(parts, tcube.partitions)):
                    self._check_transformed(p0, pt, rd, cd, bad)
                    self._check_pruning(pt, rd, cd, subsets[k_], tr, ri, ci, bad)
                    if len(dims) == 2:
                        self._check_merge(pt, dims, rs, weighted, tr, bad)
                if len(dims) == 2:
                    # column subtotals: the same merge-equivalence on the transposed problem
                    tdims = [dims[1], dims[0]]
                    trs_ = [dict(a=[r["a"][1], r["a"][0]], w=r["w"]) for r in rs]
                    ttr = {}
                    if "rows_dimension" in tr:
                        ttr["columns_dimension"] = tr["rows_dimension"]
                    if "columns_dimension" in tr:
                        ttr["rows_dimension"] = tr["columns_dimension"]
                    ptT = self._cube(tdims, trs_, weighted, ttr).partitions[0]
                    self._check_merge(ptT, tdims, trs_, weighted, ttr, bad)
            except Exception as e:
                bad.add("transform-invariance:exception:%s" % type(e).__name__)
        return sorted(bad)

    def _check_transformed(self, p0, pt, rd, cd, bad):
        """every matrix of the transformed partition equals the untransformed one re-indexed
        by the reported display orders (base rows/columns only: subtotal vectors are checked
        by the merge-equivalence clause)"""
        import numpy as np

        ro, co = [int(i) for i in pt.row_order()], [int(i) for i in pt.column_order()]
        if len(set(ro)) != len(ro) or len(set(co)) != len(co):
            bad.add("transform-invariance")
        rsel = [k for k, o in enumerate(ro) if o >= 0]
        csel = [k for k, o in enumerate(co) if o >= 0]
        r_src = [ro[k] for k in rsel]
        c_src = [co[k] for k in csel]
        for name in ("counts", "unweighted_counts", "row_proportions", "column_proportions", "table_proportions",
                     "row_weighted_bases", "column_unweighted_bases", "table_weighted_bases", "zscores", "column_index"):
            try:
                a = np.asarray(getattr(pt, name), dtype=float)
                b = np.asarray(getattr(p0, name), dtype=float)
                if a.shape != (len(ro), len(co)):
                    bad.add("shape-and-labels")
                if name == "zscores":
                    continue  # the table-level rank guard sees the same base table: compared below
                if not close(a[np.ix_(rsel, csel)], b[np.ix_(r_src, c_src)], 1e-7):
                    bad.add("transform-invariance")
            except Exception:
                bad.add("transform-invariance")
        # C16: the column index of every inserted subtotal cell is NaN
        try:
            ci_ = np.asarray(pt.column_index, dtype=float)
            ins_r = [k for k, o in enumerate(ro) if o < 0]
            ins_c = [k for k, o in enumerate(co) if o < 0]
            if (ins_r and not np.all(np.isnan(ci_[ins_r, :]))) or (ins_c and not np.all(np.isnan(ci_[:, ins_c]))):
                bad.add("column-index")
        except Exception:
            bad.add("column-index")
        # more matrices and the row-wise / column-wise vectors (margins, bases, scale statistics)
        for name in ("row_std_err", "column_std_err", "table_std_err", "pvals", "population_counts", "population_counts_moe",
                     "column_proportions_moe", "row_unweighted_bases", "table_unweighted_bases", "column_weighted_bases",
                     "row_percentages", "column_percentages", "table_percentages", "row_proportion_variances",
                     "column_std_dev", "table_std_dev"):
            try:
                a = np.asarray(getattr(pt, name), dtype=float)
                b = np.asarray(getattr(p0, name), dtype=float)
                if a.shape != (len(ro), len(co)) or not close(a[np.ix_(rsel, csel)], b[np.ix_(r_src, c_src)], 1e-7):
                    bad.add("transform-invariance")
            except Exception:
                bad.add("transform-invariance")
        for name, axis in (("rows_margin", 0), ("rows_base", 0), ("columns_margin", 1), ("columns_base", 1),
                           ("rows_scale_mean", 0), ("columns_scale_mean", 1)):
            try:
                a, b = getattr(pt, name), getattr(p0, name)
                if a is None or b is None:
                    if not (a is None and b is None):
                        bad.add("transform-invariance")
                    continue
                a, b = np.asarray(a, dtype=float), np.asarray(b, dtype=float)
                if b.ndim == 2:
                    ok = close(a[np.ix_(rsel, csel)], b[np.ix_(r_src, c_src)], 1e-7)
                else:
                    sel, src = (rsel, r_src) if axis == 0 else (csel, c_src)
                    ok = a.ndim == 1 and close(a[sel], b[src], 1e-7)
                if not ok:
                    bad.add("transform-invariance")
            except Exception:
                bad.add("transform-invariance")
        if tuple(pt.shape) != (len(ro), len(co)) or len(pt.row_labels) != len(ro) or len(pt.column_labels) != len(co):
            bad.add("shape-and-labels")
        # scalars unchanged
        for name in ("table_margin_range", "table_base_range"):
            if not close(getattr(pt, name), getattr(p0, name)):
                bad.add("transform-invariance")
        # pruning: hidden iff asked, pruned iff empty by unweighted counts
        u0 = np.asarray(p0.unweighted_counts, dtype=float)

    def _check_pruning(self, pt, rd, cd, sub, tr, ri, ci, bad):
        """C09: a base vector is absent iff hidden, or pruning is on for its dimension and it is
        empty by *unweighted* counts; an MR item answered but never selected is not empty, except
        against another MR dimension; subtotals vanish only when the opposing dimension is pruned
        and all its base vectors are empty"""
        R, C = valid_elems(rd), valid_elems(cd)
        if not R or not C:
            return

        def n_(pred):
            return wsum(sub, pred, False)

        def eligible(d, a, e, other_is_mr):
            """respondent counts towards the pruning base of element e of dimension d"""
            if d["kind"] != "MR":
                return a == e
            return a[e] == SEL if other_is_mr else a[e] != MIS

        def empty(d, dpos, e, od, opos, OV):
            omr = od["kind"] == "MR"
            return n_(lambda r: eligible(d, r["a"][dpos], e, omr) and any(valid_on(od, r["a"][opos], o) for o in OV)) == 0

        rt, ct = tr.get("rows_dimension") or {}, tr.get("columns_dimension") or {}

        def hidden(d, t):
            out = set()
            for k, v in (t.get("elements") or {}).items():
                if not v.get("hide"):
                    continue
                if d["kind"] != "MR":
                    V = valid_elems(d)
                    out |= {n for n, i in enumerate(V) if d["cats"][i]["id"] == int(k)}
                else:
                    aliases = ["%s_%d" % (d["name"], i) for i in range(d["n"])]
                    out.add(aliases.index(k) if k in aliases else int(k) - 1)
            return out

        r_empty = [empty(rd, ri, i, cd, ci, C) for i in R]
        c_empty = [empty(cd, ci, j, rd, ri, R) for j in C]
        exp_r = {n for n in range(len(R)) if n not in hidden(rd, rt) and not (rt.get("prune") and r_empty[n])}
        exp_c = {n for n in range(len(C)) if n not in hidden(cd, ct) and not (ct.get("prune") and c_empty[n])}
        ro, co = [int(o) for o in pt.row_order()], [int(o) for o in pt.column_order()]
        if {o for o in ro if o >= 0} != exp_r or {o for o in co if o >= 0} != exp_c:
            bad.add("pruning")
        # the payload-order view of the rows shows the same base rows (in payload order)
        if [int(x) for x in pt.payload_order if not isinstance(x, str)] != sorted(exp_r):
            bad.add("payload-order-visibility")

        def n_alive(d, t):
            if d["kind"] == "MR":
                return 0
            ids = [d["cats"][i]["id"] for i in valid_elems(d)]
            k = 0
            for one in t.get("insertions") or []:
                pos = (one.get("kwargs") or {}).get("positive") or one.get("args", [])
                neg = (one.get("kwargs") or {}).get("negative", [])
                if set(pos + neg) & set(ids):
                    k += 1
            return k

        sr, sc = n_alive(rd, rt), n_alive(cd, ct)
        exp_sr = set() if (ct.get("prune") and all(c_empty)) else set(range(-sr, 0))
        exp_sc = set() if (rt.get("prune") and all(r_empty)) else set(range(-sc, 0))
        if {o for o in ro if o < 0} != exp_sr or {o for o in co if o < 0} != exp_sc:
            bad.add("pruning")

    def _check_merge(self, pt, dims, rs, weighted, tr, bad):
        """C04: a subtotal without subtrahends equals the category obtained by merging its
        addends in the data (checked for row subtotals on a CAT rows dimension)"""
        import numpy as np

        rd, cd = dims
        ins = (tr.get("rows_dimension") or {}).get("insertions") or []
        if rd["kind"] == "MR" or not ins:
            return
        ro = [int(i) for i in pt.row_order()]
        co = [int(i) for i in pt.column_order()]
        valid_ids = [c["id"] for c in rd["cats"] if not c["missing"]]
        S = len([i for i in ins if set(i.get("args", []) + i.get("kwargs", {}).get("positive", []) + i.get("kwargs", {}).get("negative", [])) & set(valid_ids)])
        if S != len(ins):
            return
        csel = [k for k, o in enumerate(co) if o >= 0]
        c_src = [co[k] for k in csel]
        for k, one in enumerate(ins):
            if "kwargs" in one and one["kwargs"].get("negative"):
                continue
            addends = [i for i in one.get("args", one.get("kwargs", {}).get("positive", [])) if i in valid_ids]
            if not addends or (k - S) not in ro:
                continue
            pos = ro.index(k - S)
            # merge in the data: all addend categories become the first addend
            tgt = addends[0]
            idx_of = {c["id"]: n for n, c in enumerate(rd["cats"])}
            mrs = [dict(a=[idx_of[tgt] if rd["cats"][r["a"][0]]["id"] in addends else r["a"][0], r["a"][1]], w=r["w"]) for r in rs]
            md = dict(rd, cats=[c for c in rd["cats"]])
            q = self._cube([md, cd], mrs, weighted).partitions[0]
            q_row = [c["id"] for c in rd["cats"] if not c["missing"]].index(tgt)
            for name in ("counts", "unweighted_counts", "row_proportions", "column_proportions", "table_proportions",
                         "row_weighted_bases", "column_weighted_bases", "table_weighted_bases", "row_std_err", "column_std_err",
                         "table_std_err", "population_counts", "zscores", "pvals"):
                try:
                    a = np.asarray(getattr(pt, name), dtype=float)[pos, :][csel]
                    b = np.asarray(getattr(q, name), dtype=float)[q_row, :][c_src]
                    if name in ("zscores", "pvals"):
                        # the rank guard looks at the base table: merging can leave fewer than two
                        # independent rows (NaN everywhere by C12) -- compare only when both are defined
                        full_a = np.asarray(getattr(pt, name), dtype=float)
                        full_b = np.asarray(getattr(q, name), dtype=float)
                        if np.all(np.isnan(full_a)) or np.all(np.isnan(full_b)):
                            continue
                        ok = np.isfinite(a) & np.isfinite(b)
                        a, b = a[ok], b[ok]
                    if not close(a, b, 1e-6):
                        bad.add("subtotal-merge")
                except Exception:
                    bad.add("subtotal-merge")


REGISTRY.append(EndToEnd())


class MarginProportionInvariance(EndToEnd):
    """C03 / C05 for rows_margin_proportion / columns_margin_proportion: under any ordering,
    hiding and pruning the output equals the untransformed one re-indexed by the display
    orders, in the 1-D (marginal) and the 2-D (opposing array dimension) form"""

    name = "e2e:rows/columns_margin_proportion under display transforms"
    props = ("C03", "C05")
    clauses = ("margin-proportion-1d-invariance", "margin-proportion-2d-invariance")

    def cases(self, cfg, seed, thorough):
        rnd = random.Random(5500 + seed)
        n = 0
        while n < (1500 if thorough else 200):
            case = gen_case(rnd)
            if case["transforms"] and len(case["dims"]) == 2:
                n += 1
                yield case

    def check_case(self, case, cfg):
        import numpy as np
        import warnings

        warnings.simplefilter("ignore")
        dims, rs, weighted, tr = case["dims"], case["rs"], case["weighted"], case["transforms"]
        rd, cd = dims
        bad = set()
        if not valid_elems(rd) or not valid_elems(cd):
            return []
        p0 = self._cube(dims, rs, weighted).partitions[0]
        pt = self._cube(dims, rs, weighted, tr).partitions[0]
        ro, co = [int(i) for i in pt.row_order()], [int(i) for i in pt.column_order()]
        rsel = [k for k, o in enumerate(ro) if o >= 0]
        csel = [k for k, o in enumerate(co) if o >= 0]
        r_src = [ro[k] for k in rsel]
        c_src = [co[k] for k in csel]
        # margin proportions (1-D marginal, or 2-D across an array dimension): same rule
        for name, axis in (("rows_margin_proportion", 0), ("columns_margin_proportion", 1)):
            try:
                a = np.asarray(getattr(pt, name), dtype=float)
                b = np.asarray(getattr(p0, name), dtype=float)
                if b.ndim == 2:
                    ok = a.shape == (len(ro), len(co)) and close(a[np.ix_(rsel, csel)], b[np.ix_(r_src, c_src)], 1e-7)
                else:
                    sel, src = (rsel, r_src) if axis == 0 else (csel, c_src)
                    ok = a.ndim == 1 and close(a[sel], b[src], 1e-7)
                if not ok:
                    bad.add("margin-proportion-%dd-invariance" % b.ndim)
            except Exception:
                bad.add("margin-proportion-%dd-invariance" % (2 if (cd if axis == 0 else rd)["kind"] == "MR" else 1))
        return sorted(bad)


REGISTRY.append(MarginProportionInvariance())


# =======================================================================================
# C14: scale statistics against respondent-level statistics


def gen_scale_case(rnd):
    nd = rnd.choice([1, 2, 2, 2])
    dims = [gen_dim(rnd, "CAT", "ab"[i]) for i in range(nd)]
    for d in dims:
        for c in d["cats"]:
            r = rnd.random()
            c["nv"] = None if r < 0.25 else rnd.choice([-2, 0, 1, 1, 2, 3, 5, 2.5])
    weighted = rnd.random() < 0.4
    rs = gen_respondents(rnd, dims, rnd.choice([0, 4, 9, 16, 30]), weighted)
    int_weights = weighted and rnd.random() < 0.5
    if int_weights:
        # whole-number weights: the weighted counts are integers ("for integer counts - median")
        for r in rs:
            r["w"] = float(rnd.choice([0, 1, 1, 2, 3]))
    tr = {}
    for side, d in (("rows_dimension", dims[0]),) + ((("columns_dimension", dims[1]),) if nd == 2 else ()):
        t = {}
        ids = [c["id"] for c in d["cats"]]
        if rnd.random() < 0.4:
            t["insertions"] = [{"function": "subtotal", "name": "s", "anchor": rnd.choice(["top", "bottom"] + ids),
                                "args": rnd.sample(ids, min(len(ids), rnd.choice([1, 2]))), "id": 1}]
        if rnd.random() < 0.3:
            t["elements"] = {str(rnd.choice(ids)): {"hide": True}}
        if t:
            tr[side] = t
    return dict(dims=dims, rs=rs, weighted=weighted, transforms=tr, int_weights=int_weights)


def wstats(pairs):
    """pairs: [(value, weight)] -> (mean, population sd, total weight) or NaNs"""
    tot = math.fsum(w for _, w in pairs)
    if tot == 0:
        return float("nan"), float("nan"), tot
    mean = math.fsum(v * w for v, w in pairs) / tot
    var = math.fsum(w * (v - mean) ** 2 for v, w in pairs) / tot
    return mean, math.sqrt(var), tot


class ScaleStats(EnumContract):
    name = "e2e:scale mean / sd / std-err / median vs respondent-level statistics (slices and strands)"
    props = ("C14", "C05")
    bound = "1-D and 2-D CAT responses, <= 4 categories with partial / repeated / negative / unsorted numeric values, <= 30 respondents, optional subtotal and hidden element; seeded sample"
    clauses = ("scale-mean", "scale-sd", "scale-stderr", "scale-median", "scale-margins-invariant", "strand-scale", "strand-scale-none",
               "scale-margin-values")

    def cases(self, cfg, seed, thorough):
        rnd = random.Random(6000 + seed)
        for _ in range(3000 if thorough else 400):
            yield gen_scale_case(rnd)

    def check_case(self, case, cfg):
        import numpy as np
        import warnings
        from cr.cube.cube import Cube

        warnings.simplefilter("ignore")
        dims, rs, weighted, tr = case["dims"], case["rs"], case["weighted"], case["transforms"]
        int_counts = (not weighted) or case.get("int_weights", False)
        bad = set()
        cube = Cube(tabulate(dims, rs, weighted), transforms=copy.deepcopy(tr), population=1000)
        p = cube.partitions[0]
        if len(dims) == 1:
            d = dims[0]
            V = valid_elems(d)
            pairs = [(d["cats"][r["a"][0]]["nv"], r["w"]) for r in rs if r["a"][0] in V and d["cats"][r["a"][0]]["nv"] is not None]
            has_nv = any(d["cats"][k]["nv"] is not None for k in V)
            mean, sd, tot = wstats(pairs)

            def same(a, b):
                if a is None or (isinstance(a, float) and a != a):
                    return b != b
                return abs(a - b) <= 1e-9 * max(1, abs(b))

            if not has_nv or tot == 0:
                # "absent (None) when no category has a numeric value, and ... None for a
                # strand ... without numeric-valued respondents": every statistic
                for nm in ("scale_mean", "scale_std_dev", "scale_std_err", "scale_median"):
                    if getattr(p, nm) is not None:
                        bad.add("strand-scale-none")
            else:
                if not same(p.scale_mean, mean) or not same(p.scale_std_dev, sd) or not same(p.scale_std_err, sd / math.sqrt(tot)):
                    bad.add("strand-scale")
                if int_counts:
                    exp = float(np.median([v for v, w in pairs for _ in range(int(w))]))
                    if not same(p.scale_median, exp):
                        bad.add("strand-scale")
            return sorted(bad)
        rd, cd = dims
        R, C = valid_elems(rd), valid_elems(cd)
        if not R or not C:
            return []
        ro = [int(i) for i in p.row_order()]
        co = [int(i) for i in p.column_order()]
        r_ins = (tr.get("rows_dimension") or {}).get("insertions") or []
        c_ins = (tr.get("columns_dimension") or {}).get("insertions") or []

        def members(d, ins, o, V):
            """categories merged in display vector o (>= 0 base element, < 0 subtotal)"""
            if o >= 0:
                return [V[o]]
            ids = ins[o + len(ins)]["args"]
            return [k for k in V if d["cats"][k]["id"] in ids]

        def stats_for(vec_d, vec_members, opp_d, opp_V, vi, oi):
            pairs = [(opp_d["cats"][r["a"][oi]]["nv"], r["w"]) for r in rs
                     if r["a"][vi] in vec_members and r["a"][oi] in opp_V and opp_d["cats"][r["a"][oi]]["nv"] is not None]
            margin = wsum(rs, lambda r: r["a"][vi] in vec_members and r["a"][oi] in opp_V)
            return pairs, margin

        for name_pre, order, vec_d, ins, V, opp_d, opp_V, vi, oi in (
            ("rows", ro, rd, r_ins, R, cd, C, 0, 1), ("columns", co, cd, c_ins, C, rd, R, 1, 0)
        ):
            has_nv = any(opp_d["cats"][k]["nv"] is not None for k in opp_V)
            got_mean = getattr(p, name_pre + "_scale_mean")
            if not has_nv:
                if got_mean is not None:
                    bad.add("scale-mean")
                continue
            got_sd = getattr(p, name_pre + "_scale_mean_stddev")
            got_se = getattr(p, name_pre + "_scale_mean_stderr")
            got_med = getattr(p, name_pre + "_scale_median")
            for pos, o in enumerate(order):
                pairs, margin = stats_for(vec_d, members(vec_d, ins, o, V), opp_d, opp_V, vi, oi)
                mean, sd, tot = wstats(pairs)

                def same(a, b):
                    return (a != a and b != b) or abs(a - b) <= 1e-9 * max(1, abs(b))

                if not same(float(got_mean[pos]), mean):
                    bad.add("scale-mean")
                if not same(float(got_sd[pos]), sd):
                    bad.add("scale-sd")
                se = sd / math.sqrt(margin) if margin > 0 and sd == sd else float("nan")
                if not same(float(got_se[pos]), se):
                    bad.add("scale-stderr")
                if int_counts:
                    rep = [v for v, w in pairs for _ in range(int(w))]
                    exp = float(np.median(rep)) if rep else float("nan")
                    if not same(float(got_med[pos]), exp):
                        bad.add("scale-median")
        # the margins: the same statistics over every respondent with a valid answer on both
        # dimensions (None without numeric values / numeric-valued respondents for the median)
        for name_pre, opp_d, opp_V, oi in (("rows", cd, C, 1), ("columns", rd, R, 0)):
            pairs = [(opp_d["cats"][r["a"][oi]]["nv"], r["w"]) for r in rs
                     if r["a"][0] in R and r["a"][1] in C and opp_d["cats"][r["a"][oi]]["nv"] is not None]
            has_nv = any(opp_d["cats"][k]["nv"] is not None for k in opp_V)
            got_mean = getattr(p, name_pre + "_scale_mean_margin")
            got_med = getattr(p, name_pre + "_scale_median_margin")
            if not has_nv:
                if got_mean is not None or got_med is not None:
                    bad.add("scale-margin-values")
                continue
            mean, _sd, tot = wstats(pairs)
            if got_mean is None or not ((got_mean != got_mean and mean != mean) or abs(got_mean - mean) <= 1e-9 * max(1, abs(mean))):
                bad.add("scale-margin-values")
            if int_counts:
                rep = [v for v, w in pairs for _ in range(int(w))]
                if not rep:
                    if got_med is not None:
                        bad.add("scale-margin-values")
                elif got_med is None or abs(float(got_med) - float(np.median(rep))) > 1e-9:
                    bad.add("scale-margin-values")
        # scalar statistics do not depend on display transforms (C05)
        p0 = Cube(tabulate(dims, rs, weighted), population=1000).partitions[0]
        for nm in ("columns_scale_mean_margin", "rows_scale_mean_margin", "columns_scale_median_margin", "rows_scale_median_margin"):
            a, b = getattr(p, nm), getattr(p0, nm)
            ok = (a is None and b is None) or (a is not None and b is not None and ((a != a and b != b) or abs(a - b) <= 1e-9 * max(1, abs(b))))
            if not ok:
                bad.add("scale-margins-invariant")
        return sorted(bad)


REGISTRY.append(ScaleStats())


# =======================================================================================
# strands: 1-D partitions against first principles (C01-C05, C09, C11, C15-less, C17) and the
# categorical-array stack (C06)


def gen_strand_case(rnd):
    kind = rnd.choice(["CAT", "CAT", "CAT_DATE", "CAT_DATE", "MR", "CA"])
    weighted = rnd.random() < 0.6
    if kind == "CA":
        n_items = rnd.choice([1, 2, 3])
        cat_dim = gen_dim(rnd, "CAT", "a")
        cat_dim.pop("doc_order", None)
        dims = [dict(kind="CA", name="a", n=n_items, cats=cat_dim["cats"])]
        rs = []
        for _ in range(rnd.choice([0, 4, 9, 20])):
            w = rnd.choice([0.0, 0.5, 1.0, 1.0, 1.5, 2.25]) if weighted else 1.0
            rs.append(dict(a=[[rnd.randrange(len(cat_dim["cats"])) for _ in range(n_items)]], w=w))
        d = cat_dim
    else:
        dims = [gen_dim(rnd, kind, "a")]
        rs = gen_respondents(rnd, dims, rnd.choice([0, 3, 8, 15, 25]), weighted)
        d = dims[0]
    t = {}
    if kind in ("CAT", "CAT_DATE") and rnd.random() < 0.3:
        ids_ = [c["id"] for c in d["cats"]]
        vi = []
        for k in range(rnd.choice([1, 2])):
            pos = rnd.sample(ids_, rnd.choice([1, min(2, len(ids_))]))
            if rnd.random() < 0.5:
                vi.append({"function": "subtotal", "name": "v%d" % k, "anchor": rnd.choice(["top", "bottom"] + ids_), "args": pos})
            else:
                vi.append({"function": "subtotal", "name": "vd%d" % k, "anchor": rnd.choice(["top", "bottom"] + ids_),
                           "kwargs": {"positive": pos, "negative": rnd.sample(ids_, 1)}})
        d["view_insertions"] = vi
    if kind != "MR":
        ids = [c["id"] for c in d["cats"]]
        if rnd.random() < 0.7:
            ins = []
            for k in range(rnd.choice([1, 2, 3])):
                pos = rnd.sample(ids, rnd.choice([1, min(2, len(ids))]))
                anchor = rnd.choice(["top", "bottom"] + ids)
                r = rnd.random()
                if r < 0.45:
                    one = {"function": "subtotal", "name": "s%d" % k, "anchor": anchor, "args": pos, "id": k + 1}
                else:
                    neg = rnd.sample(ids, rnd.choice([1, 1, min(2, len(ids))]))
                    one = {"function": "subtotal", "name": "d%d" % k, "anchor": anchor,
                           "kwargs": {"positive": pos if r < 0.9 else [], "negative": neg}, "id": k + 1}
                ins.append(one)
            t["insertions"] = ins
        if rnd.random() < 0.3:
            t["elements"] = {str(rnd.choice(ids)): {"hide": True}}
        if rnd.random() < 0.3:
            t["order"] = {"type": "explicit", "element_ids": rnd.sample(ids, len(ids))}
    if rnd.random() < 0.4:
        t["prune"] = True
    return dict(dims=dims, rs=rs, weighted=weighted, transforms={"rows_dimension": t} if t else {},
                mask=rnd.choice([0, 0, 1, 3, 8, 20]))


def _ca_json(d):
    subs = [dict(alias="%s_%d" % (d["name"], i), name="item%d" % i) for i in range(d["n"])]
    els = [
        {"id": i + 1, "missing": False, "value": {"id": "%04d" % i, "derived": False, "references": subs[i]}}
        for i in range(d["n"])
    ]
    refs = {"alias": d["name"], "name": d["name"].upper(), "subreferences": subs}
    cats = [{"id": c["id"], "name": "%s%d" % (d["name"], c["id"]), "missing": c["missing"]} for c in d["cats"]]
    return [
        {"type": {"class": "enum", "elements": els, "subtype": {"class": "variable"}}, "references": refs},
        {"type": {"class": "categorical", "categories": cats, "subvariables": ["%04d" % i for i in range(d["n"])]}, "references": refs},
    ]


def tabulate_ca(d, rs, weighted):
    n, k = d["n"], len(d["cats"])
    unw, wgt = [0.0] * (n * k), [0.0] * (n * k)
    for r in rs:
        for i in range(n):
            unw[i * k + r["a"][0][i]] += 1
            wgt[i * k + r["a"][0][i]] += r["w"]
    nn = len(rs)
    return {"result": {
        "dimensions": _ca_json(d), "counts": [int(x) for x in unw],
        "measures": {"count": {"data": wgt if weighted else [int(x) for x in unw], "n_missing": 0}},
        "n": nn, "missing": 0,
        "filtered": {"unweighted_n": nn, "weighted_n": sum(r["w"] for r in rs)},
        "unfiltered": {"unweighted_n": nn, "weighted_n": sum(r["w"] for r in rs)},
    }}


class StrandEndToEnd(EnumContract):
    name = "e2e:_Strand(response tabulated from respondents) vs first principles"
    props = ("C01", "C02", "C03", "C04", "C05", "C06", "C09", "C11", "C15", "C17")
    bound = ("1-D responses over CAT / CAT_DATE / MR dimensions and categorical arrays read as a stack of strands, <= 4 "
             "categories (missing ones anywhere) or <= 3 items, <= 25 respondents with fractional weights, up to 3 random "
             "subtotals / differences (multi-term, stale, overlapping), hide / prune / explicit order; seeded sample")
    clauses = ("strand-counts", "strand-bases", "strand-proportions", "strand-stderr", "strand-population",
               "strand-subtotals", "strand-visibility", "strand-payload-order-visibility", "strand-labels", "strand-ranges", "strand-exception", "ca-stack",
               "ca-slice", "strand-min-base-mask", "strand-valid-counts", "strand-share-sum")

    def cases(self, cfg, seed, thorough):
        rnd = random.Random(7000 + seed)
        for _ in range(4000 if thorough else 500):
            yield gen_strand_case(rnd)

    def check_case(self, case, cfg):
        import warnings
        from cr.cube.cube import Cube

        warnings.simplefilter("ignore")
        dims, rs, weighted, tr = case["dims"], case["rs"], case["weighted"], case["transforms"]
        d = dims[0]
        bad = set()
        if d["kind"] == "CA":
            cube = Cube(tabulate_ca(d, rs, weighted), cube_idx=0, transforms=copy.deepcopy(tr) or None, population=1000,
                        mask_size=case.get("mask", 0))
            parts = cube.partitions
            if len(parts) != d["n"] or any(type(p).__name__ != "_Strand" for p in parts):
                return ["ca-stack"]
            cat = dict(kind="CAT", name=d["name"], cats=d["cats"])
            # the same response read on its own: one items x categories slice (array rows)
            try:
                import numpy as np

                sl = Cube(tabulate_ca(d, rs, weighted), population=1000).partitions[0]
                V = valid_elems(cat)
                if V and type(sl).__name__ == "_Slice":
                    W = np.array([[wsum(rs, lambda r, i=i, j=j: r["a"][0][i] == j) for j in V] for i in range(d["n"])])
                    U = np.array([[wsum(rs, lambda r, i=i, j=j: r["a"][0][i] == j, False) for j in V] for i in range(d["n"])])
                    valid_w = W.sum(axis=1, keepdims=True)
                    with np.errstate(all="ignore"):
                        ok = (close(sl.counts, W) and close(sl.unweighted_counts, U)
                              and close(sl.row_weighted_bases, np.broadcast_to(valid_w, W.shape))
                              and close(sl.row_proportions, W / valid_w) and close(sl.table_proportions, W / valid_w)
                              and close(sl.rows_margin, valid_w[:, 0]) and close(sl.column_weighted_bases, W)
                              and close(sl.rows_base, U.sum(axis=1)))
                    if not ok:
                        bad.add("ca-slice")
                elif V:
                    bad.add("ca-slice")
            except Exception:
                bad.add("ca-slice")
            for k, p in enumerate(parts):
                sub = [dict(a=[r["a"][0][k]], w=r["w"]) for r in rs]
                for b in self._check_strand(p, cat, sub, weighted, tr, case.get("mask", 0)):
                    bad.add(b)
                # equal to the item's univariate analysis (C06)
                q = Cube(tabulate([cat], sub, weighted), transforms=copy.deepcopy(tr) or None, population=1000).partitions[0]
                for name in ("counts", "unweighted_counts", "table_proportions", "unweighted_bases", "weighted_bases",
                             "table_proportion_stderrs", "row_labels"):
                    try:
                        a, b = getattr(p, name), getattr(q, name)
                        same = list(a) == list(b) if name == "row_labels" else close(a, b)
                        if not same:
                            bad.add("ca-stack")
                    except Exception:
                        bad.add("ca-stack")
            return sorted(bad)
        cube = Cube(tabulate(dims, rs, weighted), transforms=copy.deepcopy(tr) or None, population=1000,
                    mask_size=case.get("mask", 0))
        parts = cube.partitions
        if len(parts) != 1 or type(parts[0]).__name__ != "_Strand":
            return ["strand-exception"]
        bad = self._check_strand(parts[0], d, rs, weighted, tr, case.get("mask", 0))
        if d["kind"] != "MR":
            bad |= self._check_valid_counts(d, rs, tr)
        return sorted(bad)

    def _check_valid_counts(self, d, rs, tr):
        """C04: with a numeric (mean) measure and its valid counts in the response, the strand's
        unweighted counts are the valid counts, signed-merged for subtotals, NaN for differences"""
        import numpy as np
        from cr.cube.cube import Cube

        bad = set()
        V = valid_elems(d)
        if not V:
            return bad
        try:
            rnd = random.Random(len(rs) * 7 + len(d["cats"]))
            vals = [None if rnd.random() < 0.3 else rnd.choice([1, 2, 5]) for _ in rs]
            resp = tabulate([d], rs, False)
            ncat = len(d["cats"])
            vc = [sum(1 for r, v in zip(rs, vals) if r["a"][0] == k and v is not None) for k in range(ncat)]
            mean = [(sum(v for r, v in zip(rs, vals) if r["a"][0] == k and v is not None) / vc[k]) if vc[k] else {"?": -8} for k in range(ncat)]
            meta = {"references": {"alias": "num", "name": "num"}, "type": {"class": "numeric"}}
            sums_raw = [sum(v for r, v in zip(rs, vals) if r["a"][0] == k and v is not None) if vc[k] else None for k in range(ncat)]
            resp["result"]["measures"]["mean"] = {"data": mean, "n_missing": 0, "metadata": meta}
            resp["result"]["measures"]["sum"] = {"data": [x if x is not None else {"?": -8} for x in sums_raw], "n_missing": 0, "metadata": meta}
            resp["result"]["measures"]["valid_count_unweighted"] = {"data": vc, "n_missing": 0, "metadata": meta}
            p = Cube(resp, transforms=copy.deepcopy(tr) or None, population=1000).partitions[0]
            t = tr.get("rows_dimension") or {}
            vids = [d["cats"][i]["id"] for i in V]
            ins = []
            effective = t["insertions"] if "insertions" in t else (d.get("view_insertions") or [])
            for one in effective:
                pos = (one.get("kwargs") or {}).get("positive") or one.get("args", [])
                neg = (one.get("kwargs") or {}).get("negative", [])
                if set(pos + neg) & set(vids):
                    ins.append(([vids.index(i) for i in vids if i in pos], [vids.index(i) for i in vids if i in neg]))
            S = len(ins)
            order = [int(o) for o in p.row_order()]
            base = [vc[i] for i in V]
            subs = [float("nan") if b else float(sum(base[i] for i in a)) for a, b in ins]
            exp = [base[o] if o >= 0 else subs[o + S] for o in order]
            if not close(np.asarray(p.unweighted_counts, dtype=float), exp):
                bad.add("strand-valid-counts")
            # C15: a strand's share of sum = sum / total of the base rows (unavailable sums
            # skipped in the total), for base rows and subtotals alike
            nan = float("nan")
            bs = [sums_raw[i] if sums_raw[i] is not None else nan for i in V]
            total = math.fsum(x for x in bs if x == x)
            sh_base = [div(x, total) if x == x else nan for x in bs]
            sh_sub = [div(math.fsum(bs[i] for i in a) - math.fsum(bs[i] for i in b), total) for a, b in ins]
            exp_sh = [sh_base[o] if o >= 0 else sh_sub[o + S] for o in order]
            exp_sums = [bs[o] if o >= 0 else (math.fsum(bs[i] for i in ins[o + S][0]) - math.fsum(bs[i] for i in ins[o + S][1])) for o in order]
            if not close(np.asarray(p.share_sum, dtype=float), exp_sh, 1e-9) or not close(np.asarray(p.sums, dtype=float), exp_sums, 1e-9):
                bad.add("strand-share-sum")
        except Exception as e:
            bad.add("strand-exception:%s" % type(e).__name__)
        return bad

    def _check_strand(self, p, d, rs, weighted, tr, mask=0):
        import numpy as np

        bad = set()
        t = tr.get("rows_dimension") or {}
        V = valid_elems(d)
        if not V:
            return bad
        is_mr = d["kind"] == "MR"
        date = d["kind"] == "CAT_DATE"
        W = [wsum(rs, lambda r, i=i: member(d, r["a"][0], i)) for i in V]
        U = [wsum(rs, lambda r, i=i: member(d, r["a"][0], i), False) for i in V]
        WB = [wsum(rs, lambda r, i=i: valid_on(d, r["a"][0], i)) for i in V]
        UB = [wsum(rs, lambda r, i=i: valid_on(d, r["a"][0], i), False) for i in V]
        # subtotals that survive: reference at least one valid id
        ins = []
        if not is_mr:
            vids = [d["cats"][i]["id"] for i in V]
            effective = t["insertions"] if "insertions" in t else (d.get("view_insertions") or [])
            for one in effective:
                pos = (one.get("kwargs") or {}).get("positive") or one.get("args", [])
                neg = (one.get("kwargs") or {}).get("negative", [])
                if set(pos + neg) & set(vids):
                    ins.append(([vids.index(i) for i in vids if i in pos], [vids.index(i) for i in vids if i in neg]))
        S = len(ins)
        try:
            order = [int(o) for o in p.row_order()]
        except Exception:
            return {"strand-exception"}
        if len(set(order)) != len(order):
            bad.add("strand-visibility")
        # C09: a base row is absent iff hidden, or pruned with nobody eligible (unweighted);
        # strand subtotals are never removed
        hidden = set()
        if not is_mr:
            for k, v in (t.get("elements") or {}).items():
                if v.get("hide"):
                    hidden |= {n for n, i in enumerate(V) if d["cats"][i]["id"] == int(k)}
        prune_base = UB if is_mr else U
        exp_vis = {n for n in range(len(V)) if n not in hidden and not (t.get("prune") and prune_base[n] == 0)}
        if {o for o in order if o >= 0} != exp_vis or {o for o in order if o < 0} != set(range(-S, 0)):
            bad.add("strand-visibility")
            return bad
        if [int(x) for x in p.payload_order if not isinstance(x, str)] != sorted(exp_vis):
            bad.add("strand-payload-order-visibility")

        def vec(base, sub):
            return [base[o] if o >= 0 else sub[o + S] for o in order]

        def sgn(vals, s):
            return math.fsum(vals[i] for i in ins[s][0]) - math.fsum(vals[i] for i in ins[s][1])

        def get(name):
            return np.asarray(getattr(p, name), dtype=float)

        try:
            tbw, tbu = (None, None) if is_mr else (math.fsum(W), math.fsum(U))
            if not (close(get("counts"), vec(W, [sgn(W, s) for s in range(S)]))
                    and close(get("unweighted_counts"), vec(U, [sgn(U, s) for s in range(S)]))):
                bad.add("strand-counts" if not S else "strand-subtotals")
            if not (close(get("weighted_bases"), vec(WB, [tbw] * S)) and close(get("unweighted_bases"), vec(UB, [tbu] * S))):
                bad.add("strand-bases")
            # C02: the minimum-base mask is true exactly where the unweighted base is below the threshold
            if [bool(x) for x in p.min_base_size_mask] != [b < mask for b in vec(UB, [tbu] * S)]:
                bad.add("strand-min-base-mask")
            P = [div(W[n], WB[n]) for n in range(len(V))]
            PS, VS = [], []
            for s in range(S):
                a, b = ins[s]
                multi = len(b) > 0 and (len(a) > 1 or len(b) > 1)
                ps = float("nan") if (date and multi) else div(sgn(W, s), tbw)
                PS.append(ps)
                ex2 = div(math.fsum(W[i] for i in a) + math.fsum(W[i] for i in b), tbw)
                VS.append(ex2 - ps * ps)
            if not close(get("table_proportions"), vec(P, PS)) or not close(get("table_percentages"), [100 * x for x in vec(P, PS)]):
                bad.add("strand-proportions" if not S else "strand-subtotals")
            var = vec([x * (1 - x) for x in P], VS)
            bases = vec(WB, [tbw] * S)
            with np.errstate(all="ignore"):
                se = np.sqrt(np.array(var, dtype=float) / np.array(bases, dtype=float))
                sd = np.sqrt(np.array(var, dtype=float))
            if not (close(get("table_proportion_stderrs"), se, 1e-7) and close(get("table_proportion_stddevs"), sd, 1e-7)
                    and close(get("table_proportion_moes"), 1.959964 * se, 1e-7)):
                bad.add("strand-stderr")
            # C17: full population per wave on a date strand; NaN for differences
            pp = vec([1.0] * len(V) if date else P, [float("nan") if ins[s][1] else (1.0 if date else PS[s]) for s in range(S)])
            # filtered fraction of the tabulated response: filtered == unfiltered weighted N
            # (1, or NaN when nobody responded: C17)
            frac = 1.0 if math.fsum(r["w"] for r in rs) != 0 else float("nan")
            if not close(get("population_counts"), [1000 * frac * x for x in pp]):
                bad.add("strand-population")
            pse = np.zeros(len(order)) if date else se
            if not close(get("population_counts_moe"), 1.959964 * 1000 * frac * pse, 1e-7):
                bad.add("strand-population")
            if not (close(get("table_base_range"), [min(UB), max(UB)]) and close(get("table_margin_range"), [min(WB), max(WB)])):
                bad.add("strand-ranges")
            if tuple(p.shape) != (len(order),) or len(p.row_labels) != len(order):
                bad.add("strand-labels")
            if not is_mr:
                names = ["%s%d" % (d["name"], d["cats"][i]["id"]) for i in V]
                exp = [names[o] if o >= 0 else None for o in order]
                got = list(p.row_labels)
                if any(e is not None and e != g for e, g in zip(exp, got)):
                    bad.add("strand-labels")
            if sorted(p.inserted_row_idxs) != [k for k, o in enumerate(order) if o < 0]:
                bad.add("strand-labels")
        except Exception as e:
            bad.add("strand-exception:%s" % type(e).__name__)
        return bad


REGISTRY.append(StrandEndToEnd())


# =======================================================================================
# C13: pairwise column tests and their index sets through the public API


def gen_pairwise_case(rnd):
    full = rnd.random() < 0.15  # effective base + subtotals on both dimensions (intersection cells)
    dims = [gen_dim(rnd, "CAT", "a"), gen_dim(rnd, "CAT" if full else rnd.choice(["CAT", "CAT", "MR"]), "b")]
    for d in dims:
        d.pop("doc_order", None)
    weighted = full or rnd.random() < 0.4
    rs = gen_respondents(rnd, dims, rnd.choice([6, 12, 25, 40]), weighted)
    cd = dims[1]
    is_mr = cd["kind"] == "MR"
    ids = list(range(1, cd["n"] + 1)) if is_mr else [c["id"] for c in cd["cats"]]
    t = {}
    if not is_mr and (full or rnd.random() < 0.5):
        t["insertions"] = [{"function": "subtotal", "name": "s", "anchor": rnd.choice(["top", "bottom"] + ids),
                            "args": rnd.sample(ids, rnd.choice([1, min(2, len(ids))])), "id": 1}]
    if rnd.random() < 0.3:
        t["elements"] = {str(rnd.choice(ids)): {"hide": True}}
    if rnd.random() < 0.4:
        t["order"] = {"type": "explicit", "element_ids": rnd.sample(ids, len(ids))}
    if rnd.random() < 0.3:
        t["prune"] = True
    tr = {"columns_dimension": t} if t else {}
    if full or rnd.random() < 0.4:
        rids = [c["id"] for c in dims[0]["cats"]]
        tr["rows_dimension"] = {"insertions": [{"function": "subtotal", "name": "rs", "anchor": rnd.choice(["top", "bottom"] + rids),
                                                "args": rnd.sample(rids, rnd.choice([1, min(2, len(rids))])), "id": 1}]}
    alpha = rnd.choice([None, 0.05, [0.05], [0.3, 0.05], [0.1, 0.45], 0.6])
    pw = {}
    if alpha is not None:
        pw["alpha"] = alpha
    r = rnd.random()
    if r < 0.4:
        pw["only_larger"] = False
    elif r < 0.6:
        pw["only_larger"] = True
    if pw:
        tr["pairwise_indices"] = pw
    return dict(dims=dims, rs=rs, weighted=weighted, transforms=tr, sq=full or (weighted and not is_mr and rnd.random() < 0.5))


class PairwiseEndToEnd(EnumContract):
    name = "e2e:pairwise t / p-values and index sets vs first principles (public API)"
    props = ("C13", "C05")
    bound = ("CAT x CAT and CAT x MR (no overlap measures) responses, <= 4 categories / 3 items (missing ones anywhere), <= 40 respondents with "
             "fractional weights, optional column subtotal (no differences) / hide / prune / explicit order, alpha in "
             "{default, 0.05, [0.05], [0.3, 0.05], [0.1, 0.45], 0.6}, only_larger in {default, True, False}; seeded sample")
    clauses = ("pairwise-t", "pairwise-p", "pairwise-antisymmetry", "pairwise-indices", "pairwise-indices-alt",
               "pairwise-alt-contains-primary", "pairwise-never-self", "pairwise-exception")

    def cases(self, cfg, seed, thorough):
        rnd = random.Random(8000 + seed)
        for _ in range(2500 if thorough else 300):
            yield gen_pairwise_case(rnd)

    def check_case(self, case, cfg):
        import numpy as np
        import warnings
        from scipy.stats import t as tdist
        from cr.cube.cube import Cube

        warnings.simplefilter("ignore")
        dims, rs, weighted, tr = case["dims"], case["rs"], case["weighted"], case["transforms"]
        rd, cd = dims
        R, C = valid_elems(rd), valid_elems(cd)
        if not R or not C:
            return []
        bad = set()
        try:
            resp = tabulate(dims, rs, weighted)
            if case.get("sq"):
                # squared weights supplied: the test uses the effective base (sum w)^2 / sum w^2
                nr, nc = len(rd["cats"]), len(cd["cats"])
                sq = [0.0] * (nr * nc)
                for r in rs:
                    sq[r["a"][0] * nc + r["a"][1]] += r["w"] * r["w"]
                resp["result"]["measures"]["weighted_squared_count"] = {"data": sq, "n_missing": 0}
            p = Cube(resp, transforms=copy.deepcopy(tr) or None, population=1000).partitions[0]
            co = [int(i) for i in p.column_order()]
            ro = [int(i) for i in p.row_order()]
            ins = []
            if cd["kind"] != "MR":
                vids = [cd["cats"][j]["id"] for j in C]
                for one in (tr.get("columns_dimension") or {}).get("insertions") or []:
                    if set(one["args"]) & set(vids):
                        ins.append([vids.index(i) for i in vids if i in one["args"]])
            S = len(ins)

            def members(o):
                return [o] if o >= 0 else ins[o + S]

            # column j: a category, or "selected item j" of a multiple-response variable
            W = np.array([[wsum(rs, lambda r, i=i, j=j: r["a"][0] == i and member(cd, r["a"][1], j)) for j in C] for i in R])
            U = np.array([[wsum(rs, lambda r, i=i, j=j: r["a"][0] == i and member(cd, r["a"][1], j), False) for j in C] for i in R])
            W2 = np.array([[math.fsum(r["w"] * r["w"] for r in rs if r["a"][0] == i and member(cd, r["a"][1], j)) for j in C] for i in R])
            # rows of the statistic: base rows, then the row subtotals (merged categories)
            rvids = [rd["cats"][i]["id"] for i in R]
            r_ins = []
            for one in (tr.get("rows_dimension") or {}).get("insertions") or []:
                if set(one["args"]) & set(rvids):
                    r_ins.append([rvids.index(i) for i in rvids if i in one["args"]])
            SR = len(r_ins)
            # per display column: proportion of each row (base + subtotal) and unweighted column base
            P, N = [], []
            for o in co:
                m = members(o)
                w = W[:, m].sum(axis=1)
                w_all = np.concatenate([w, [w[a].sum() for a in r_ins]]) if SR else w
                with np.errstate(all="ignore"):
                    P.append(w_all / w.sum())
                if case.get("sq"):
                    with np.errstate(all="ignore"):
                        N.append(np.float64(W[:, m].sum()) ** 2 / np.float64(W2[:, m].sum()))
                else:
                    N.append(U[:, m].sum())
            P = np.array(P).T if co else np.zeros((len(R) + SR, 0))  # (rows + row subtotals) x display columns
            N = np.array(N, dtype=float)
            rows = [(o if o >= 0 else len(R) + o + SR) for o in ro]
            rpos = list(range(len(ro)))
            alpha_cfg = (tr.get("pairwise_indices") or {}).get("alpha")
            if not alpha_cfg:
                a1, a2 = 0.05, None
            elif isinstance(alpha_cfg, float):
                a1, a2 = alpha_cfg, None
            elif len(alpha_cfg) == 1:
                a1, a2 = alpha_cfg[0], None
            else:
                a1, a2 = sorted(alpha_cfg[:2])
            only_larger = (tr.get("pairwise_indices") or {}).get("only_larger", True) is not False

            def tp(sel):
                """t and p matrices (base rows x display columns) against selected display column"""
                with np.errstate(all="ignore"):
                    pa, na = P[:, [sel]], N[sel]
                    se = np.sqrt(pa * (1 - pa) / na + P * (1 - P) / N[None, :])
                    t = (P - pa) / se
                    df = N[None, :] + na - 2
                    pv = 2 * (1 - tdist.cdf(np.abs(t), df))
                return t, pv

            got_idx = p.pairwise_indices
            got_alt = p.pairwise_indices_alt
            if (got_alt is None) != (a2 is None):
                bad.add("pairwise-indices-alt")
            T_all = []
            for c in range(len(co)):
                t, pv = tp(c)
                T_all.append(t)
                gt = np.asarray(p.pairwise_significance_t_stats(c), dtype=float)[rpos, :]
                gp = np.asarray(p.pairwise_significance_p_vals(c), dtype=float)[rpos, :]
                te = t[rows, :]
                pe = pv[rows, :]
                if not close(gt, te, 1e-6):
                    bad.add("pairwise-t")
                if not close(gp, pe, 1e-6):
                    bad.add("pairwise-p")
                for alpha, got, clause in ((a1, got_idx, "pairwise-indices"), (a2, got_alt, "pairwise-indices-alt")):
                    if alpha is None or got is None:
                        continue
                    for rr, r_ in enumerate(rows):
                        row_p, row_t = pe[rr], te[rr]
                        if np.any(np.abs(row_p - alpha) < 1e-7):
                            continue  # too close to the threshold for a float comparison
                        exp = tuple(k for k in range(len(co)) if row_p[k] < alpha and (not only_larger or row_t[k] < 0))
                        g = tuple(int(x) for x in got[rpos[rr]][c])
                        if g != exp:
                            bad.add(clause)
                        if c in g:
                            bad.add("pairwise-never-self")
            # antisymmetry of t, symmetry of p in (a, b)
            for a in range(len(co)):
                for b in range(len(co)):
                    ta = np.asarray(p.pairwise_significance_t_stats(a), dtype=float)[rpos, b]
                    tb = np.asarray(p.pairwise_significance_t_stats(b), dtype=float)[rpos, a]
                    if not close(ta, -tb, 1e-6):
                        bad.add("pairwise-antisymmetry")
            if a2 is not None and got_alt is not None and got_idx is not None:
                for rr in range(len(ro)):
                    for c in range(len(co)):
                        if not set(got_idx[rr][c]) <= set(got_alt[rr][c]):
                            bad.add("pairwise-alt-contains-primary")
        except Exception as e:
            bad.add("pairwise-exception:%s" % type(e).__name__)
        return sorted(bad)


REGISTRY.append(PairwiseEndToEnd())


# =======================================================================================
# C06: multi-cube sets -- partition sets line up, categorical-array stack, numeric summaries


def _means_response(dims, rs, values):
    """tabulate respondents over `dims` (CAT only) with a numeric answer per respondent:
    count / mean per cell; cells without respondents carry {'?': -8}"""
    shape = [len(d["cats"]) for d in dims]
    size = 1
    for s in shape:
        size *= s
    n, tot = [0] * size, [0.0] * size
    for r, v in zip(rs, values):
        flat = 0
        for a, s in zip(r["a"], shape):
            flat = flat * s + a
        n[flat] += 1
        tot[flat] += v
    means = [(tot[k] / n[k]) if n[k] else {"?": -8} for k in range(size)]
    meta = {"references": {"alias": "num", "name": "num"}, "type": {"class": "numeric"}}
    return {"result": {
        "dimensions": [j for d in dims for j in dim_json(d)], "counts": n,
        "measures": {"count": {"data": n, "n_missing": 0, "metadata": meta},
                     "mean": {"data": means, "n_missing": 0, "metadata": meta}},
        "n": len(rs), "missing": 0,
    }}


def gen_cubeset_case(rnd):
    kind = rnd.choice(["tabbook", "ca", "numeric"])
    weighted = rnd.random() < 0.5
    n_cols = rnd.choice([1, 2])
    cols = []
    for i in range(n_cols):
        d = gen_dim(rnd, "CAT", "xy"[i])
        d.pop("doc_order", None)
        cols.append(d)
    if kind == "ca":
        cat = gen_dim(rnd, "CAT", "a")
        cat.pop("doc_order", None)
        row = dict(kind="CA", name="a", n=rnd.choice([1, 2, 3]), cats=cat["cats"])
    else:
        row = gen_dim(rnd, "CAT", "a")
        row.pop("doc_order", None)
    rs = []
    for _ in range(rnd.choice([0, 5, 12, 25])):
        w = rnd.choice([0.5, 1.0, 1.0, 1.5, 2.25]) if weighted else 1.0
        if kind == "ca":
            a0 = [rnd.randrange(len(row["cats"])) for _ in range(row["n"])]
        else:
            a0 = rnd.randrange(len(row["cats"]))
        rs.append(dict(a=[a0] + [rnd.randrange(len(c["cats"])) for c in cols], w=w, v=rnd.choice([0, 1, 2.5, 4, 10])))
    return dict(kind=kind, row=row, cols=cols, rs=rs, weighted=weighted)


class CubeSetEndToEnd(EnumContract):
    name = "e2e:CubeSet partition sets / categorical-array stack / numeric-summary inflation"
    props = ("C06",)
    bound = ("multi-cube sets of 2-3 cubes: rows variable CAT (<= 4 categories), categorical array (<= 3 items) or a "
             "dimension-less numeric summary, 1-2 CAT column variables, <= 25 respondents; seeded sample")
    clauses = ("sets-line-up", "ca-stack-strand", "ca-stack-slice", "numeric-inflation", "cubeset-exception")

    def cases(self, cfg, seed, thorough):
        rnd = random.Random(9000 + seed)
        for _ in range(1500 if thorough else 200):
            yield gen_cubeset_case(rnd)

    def check_case(self, case, cfg):
        import numpy as np
        import warnings
        from cr.cube.cube import Cube, CubeSet

        warnings.simplefilter("ignore")
        kind, row, cols, rs, weighted = case["kind"], case["row"], case["cols"], case["rs"], case["weighted"]
        bad = set()
        try:
            if kind == "numeric":
                vals = [r["v"] for r in rs]
                resps = [_means_response([], rs, vals)]
                for ci, c in enumerate(cols):
                    resps.append(_means_response([c], [dict(a=[r["a"][1 + ci]]) for r in rs], vals))
                cs = CubeSet(copy.deepcopy(resps), [{} for _ in resps], 1000, 0)
                sets = cs.partition_sets
                if len(sets) != 1 or len(sets[0]) != len(resps):
                    return ["numeric-inflation"]
                first = sets[0][0]
                overall = (sum(vals) / len(vals)) if vals else float("nan")
                if type(first).__name__ != "_Strand" or not close(first.means, [overall]) or not close(first.unweighted_counts, [len(rs)]):
                    bad.add("numeric-inflation")
                for ci, c in enumerate(cols):
                    p = sets[0][1 + ci]
                    V = valid_elems(c)
                    exp_m, exp_n = [], []
                    for j in V:
                        sel = [r["v"] for r in rs if r["a"][1 + ci] == j]
                        exp_n.append(len(sel))
                        exp_m.append(sum(sel) / len(sel) if sel else float("nan"))
                    if type(p).__name__ != "_Slice" or not close(p.means, [exp_m]) or not close(p.unweighted_counts, [exp_n]):
                        bad.add("numeric-inflation")
                    if list(p.column_labels) != ["%s%d" % (c["name"], c["cats"][j]["id"]) for j in V]:
                        bad.add("numeric-inflation")
                return sorted(bad)
            if kind == "ca":
                resps = [tabulate_ca(row, [dict(a=[r["a"][0]], w=r["w"]) for r in rs], weighted)]
                # later cubes: items x categories x column variable
                for ci, c in enumerate(cols):
                    resps.append(self._ca_x_cat(row, c, [dict(a=[r["a"][0], r["a"][1 + ci]], w=r["w"]) for r in rs], weighted))
                cs = CubeSet(copy.deepcopy(resps), [{} for _ in resps], 1000, 0)
                sets = cs.partition_sets
                if len(sets) != row["n"] or any(len(s) != len(resps) for s in sets):
                    return ["sets-line-up"]
                cat = dict(kind="CAT", name=row["name"], cats=row["cats"])
                for k, pset in enumerate(sets):
                    sub = [dict(a=[r["a"][0][k]], w=r["w"]) for r in rs]
                    q = Cube(tabulate([cat], sub, weighted), population=1000).partitions[0]
                    for nm in ("counts", "unweighted_counts", "table_proportions", "unweighted_bases"):
                        if type(pset[0]).__name__ != "_Strand" or not close(getattr(pset[0], nm), getattr(q, nm)):
                            bad.add("ca-stack-strand")
                    for ci, c in enumerate(cols):
                        sub2 = [dict(a=[r["a"][0][k], r["a"][1 + ci]], w=r["w"]) for r in rs]
                        q2 = Cube(tabulate([cat, c], sub2, weighted), population=1000).partitions[0]
                        p2 = pset[1 + ci]
                        for nm in ("counts", "unweighted_counts", "column_proportions", "row_proportions", "columns_margin"):
                            if type(p2).__name__ != "_Slice" or not close(getattr(p2, nm), getattr(q2, nm)):
                                bad.add("ca-stack-slice")
                return sorted(bad)
            # tabbook: rows variable strand + rows x column slices, one partition set
            resps = [tabulate([row], [dict(a=[r["a"][0]], w=r["w"]) for r in rs], weighted)]
            for ci, c in enumerate(cols):
                resps.append(tabulate([row, c], [dict(a=[r["a"][0], r["a"][1 + ci]], w=r["w"]) for r in rs], weighted))
            cs = CubeSet(copy.deepcopy(resps), [{} for _ in resps], 1000, 0)
            sets = cs.partition_sets
            if len(sets) != 1 or len(sets[0]) != len(resps):
                return ["sets-line-up"]
            V = valid_elems(row)
            W = [wsum(rs, lambda r, i=i: r["a"][0] == i) for i in V]
            if type(sets[0][0]).__name__ != "_Strand" or not close(sets[0][0].counts, W):
                bad.add("sets-line-up")
            for ci, c in enumerate(cols):
                C = valid_elems(c)
                exp = [[wsum(rs, lambda r, i=i, j=j: r["a"][0] == i and r["a"][1 + ci] == j) for j in C] for i in V]
                p = sets[0][1 + ci]
                if type(p).__name__ != "_Slice" or (C and not close(p.counts, exp)):
                    bad.add("sets-line-up")
        except Exception as e:
            bad.add("cubeset-exception:%s" % type(e).__name__)
        return sorted(bad)

    @staticmethod
    def _ca_x_cat(ca, c, rs, weighted):
        n, k, m = ca["n"], len(ca["cats"]), len(c["cats"])
        unw, wgt = [0.0] * (n * k * m), [0.0] * (n * k * m)
        for r in rs:
            for i in range(n):
                flat = (i * k + r["a"][0][i]) * m + r["a"][1]
                unw[flat] += 1
                wgt[flat] += r["w"]
        nn = len(rs)
        return {"result": {
            "dimensions": _ca_json(ca) + dim_json(c), "counts": [int(x) for x in unw],
            "measures": {"count": {"data": wgt if weighted else [int(x) for x in unw], "n_missing": 0}},
            "n": nn, "missing": 0,
            "filtered": {"unweighted_n": nn, "weighted_n": sum(r["w"] for r in rs)},
            "unfiltered": {"unweighted_n": nn, "weighted_n": sum(r["w"] for r in rs)},
        }}


REGISTRY.append(CubeSetEndToEnd())


# =======================================================================================
# C08 for strands: sort by the strand's own measure


STRAND_SORT_PUBLIC = {
    "base_unweighted": "unweighted_bases", "base_weighted": "weighted_bases", "count_unweighted": "unweighted_counts",
    "count_weighted": "counts", "percent": "table_percentages", "percent_moe": "table_proportion_moes",
    "percent_stddev": "table_proportion_stddevs", "percent_stderr": "table_proportion_stderrs",
    "population": "population_counts", "population_moe": "population_counts_moe",
}


def gen_strand_sort_case(rnd):
    case = gen_strand_case(rnd)
    while case["dims"][0]["kind"] == "CA":
        case = gen_strand_case(rnd)
    d = case["dims"][0]
    t = dict((case["transforms"].get("rows_dimension") or {}))
    t.pop("order", None)
    measure = rnd.choice(sorted(STRAND_SORT_PUBLIC) + ["mean", "sum", "bogus_measure"])
    order = {"type": "univariate_measure", "measure": measure}
    r = rnd.random()
    if r < 0.4:
        order["direction"] = "ascending"
    elif r < 0.6:
        order["direction"] = "descending"
    if d["kind"] != "MR" and rnd.random() < 0.4:
        ids = [c["id"] for c in d["cats"]]
        fixed = {}
        if rnd.random() < 0.6:
            fixed["top"] = rnd.sample(ids, 1)
        if rnd.random() < 0.6:
            fixed["bottom"] = rnd.sample(ids, 1)
        if fixed:
            order["fixed"] = fixed
    t["order"] = order
    case["transforms"] = {"rows_dimension": t}
    return case


class StrandSortByValue(EnumContract):
    name = "e2e:_Strand sort by its own measure (public API)"
    props = ("C08",)
    bound = ("1-D CAT / CAT_DATE / MR responses as in the strand oracle, order type univariate_measure over every supported "
             "keyword plus keywords whose measure the response lacks (mean, sum) and an unknown one, direction default / "
             "ascending / descending, optional fixed top / bottom, subtotals / differences, hide, prune; seeded sample")
    clauses = ("strand-body-monotone", "strand-nan-last-in-payload-order", "strand-population-nan-last", "strand-subtotal-group",
               "strand-fixed-brackets", "strand-fallback-payload-order", "strand-no-duplicates", "strand-sort-exception")

    def cases(self, cfg, seed, thorough):
        rnd = random.Random(9500 + seed)
        for _ in range(4000 if thorough else 500):
            yield gen_strand_sort_case(rnd)

    def check_case(self, case, cfg):
        import numpy as np
        import warnings
        from cr.cube.cube import Cube

        warnings.simplefilter("ignore")
        dims, rs, weighted, tr = case["dims"], case["rs"], case["weighted"], case["transforms"]
        d = dims[0]
        bad = set()
        if not valid_elems(d):
            return []
        try:
            t = tr["rows_dimension"]
            spec_ = t["order"]
            p = Cube(tabulate(dims, rs, weighted), transforms=copy.deepcopy(tr), population=1000).partitions[0]
            order = [int(o) for o in p.row_order()]
            if len(set(order)) != len(order):
                bad.add("strand-no-duplicates")
            plain_t = {k: v for k, v in t.items() if k != "order"}
            p0 = Cube(tabulate(dims, rs, weighted), transforms={"rows_dimension": copy.deepcopy(plain_t)} if plain_t else None,
                      population=1000).partitions[0]
            payload = [int(o) for o in p0.row_order()]
            if spec_["measure"] not in STRAND_SORT_PUBLIC:
                # measure not in the response / unknown keyword: anchored payload order
                if order != payload:
                    bad.add("strand-fallback-payload-order")
                return sorted(bad)
            if sorted(order) != sorted(payload):
                bad.add("strand-no-duplicates")
                return sorted(bad)
            vals = np.asarray(getattr(p, STRAND_SORT_PUBLIC[spec_["measure"]]), dtype=float)
            desc = spec_.get("direction", "descending") != "ascending"
            V = valid_elems(d)
            ids = [d["cats"][i]["id"] for i in V] if d["kind"] != "MR" else list(range(1, len(V) + 1))
            fixed = spec_.get("fixed") or {}
            top = [ids.index(i) for i in fixed.get("top", []) if i in ids]
            bottom = [ids.index(i) for i in fixed.get("bottom", []) if i in ids and ids.index(i) not in top]
            pos = {o: k for k, o in enumerate(order)}
            subs = [o for o in order if o < 0]
            base = [o for o in order if o >= 0]
            vis_top = [o for o in top if o in pos]
            vis_bottom = [o for o in bottom if o in pos]
            body = [o for o in base if o not in vis_top and o not in vis_bottom]
            # group structure: subtotals first (descending) or last (ascending); fixed brackets
            exp_layout = (subs if desc else []) + vis_top + body + vis_bottom + ([] if desc else subs)
            if order != exp_layout:
                if [o for o in order if o >= 0] != vis_top + body + vis_bottom:
                    bad.add("strand-fixed-brackets")
                else:
                    bad.add("strand-subtotal-group")

            # population keywords sort by a surrogate (the proportion) whose NaNs differ from the
            # public value's (differences, NaN filtered fraction): separately named clause (F9)
            nan_clause = ("strand-population-nan-last" if spec_["measure"].startswith("population")
                          else "strand-nan-last-in-payload-order")

            def monotone(seq, clause):
                v = [vals[pos[o]] for o in seq]
                fin = [x for x in v if x == x]
                k = len(fin)
                if any(x != x for x in v[:k]):
                    bad.add(nan_clause)
                    return
                for a, b in zip(fin, fin[1:]):
                    if (a < b - 1e-9) if desc else (a > b + 1e-9):
                        bad.add(clause)
                nan_part = [o for o in seq[k:]]
                # payload order: element index for base rows, definition order for subtotals
                if nan_part != sorted(nan_part):
                    bad.add(nan_clause)

            monotone(body, "strand-body-monotone")
            monotone(subs, "strand-subtotal-group")
        except Exception as e:
            bad.add("strand-sort-exception:%s" % type(e).__name__)
        return sorted(bad)


REGISTRY.append(StrandSortByValue())


# =======================================================================================
# C01: numeric arrays (the sub-variables axis arrives last in the data and becomes the rows)


def gen_numarr_case(rnd):
    grouped = rnd.random() < 0.75
    d = gen_dim(rnd, "CAT", "g") if grouped else None
    if d:
        d.pop("doc_order", None)
    k = rnd.choice([1, 2, 3])
    rs = []
    for _ in range(rnd.choice([0, 4, 9, 18])):
        vals = [None if rnd.random() < 0.25 else rnd.choice([0, 1, 2.5, 4, 10, -3]) for _ in range(k)]
        rs.append(dict(a=[rnd.randrange(len(d["cats"]))] if d else [], v=vals))
    return dict(dim=d, k=k, rs=rs, measure=rnd.choice(["mean", "sum"]))


def numarr_response(case):
    d, k, rs, measure = case["dim"], case["k"], case["rs"], case["measure"]
    ncat = len(d["cats"]) if d else 1
    n = [[0] * k for _ in range(ncat)]
    tot = [[0.0] * k for _ in range(ncat)]
    cnt = [0] * ncat
    for r in rs:
        c = r["a"][0] if d else 0
        cnt[c] += 1
        for i, v in enumerate(r["v"]):
            if v is not None:
                n[c][i] += 1
                tot[c][i] += v
    if measure == "mean":
        data = [(tot[c][i] / n[c][i]) if n[c][i] else {"?": -8} for c in range(ncat) for i in range(k)]
    else:
        data = [tot[c][i] if n[c][i] else {"?": -8} for c in range(ncat) for i in range(k)]
    subs = ["%04d" % i for i in range(k)]
    refs = {"alias": "arr", "name": "Arr", "subreferences": [{"alias": "item%d" % i, "name": "Item %d" % i} for i in range(k)]}
    meta = {"references": refs, "derived": True, "type": {"class": "numeric", "subvariables": subs}}
    return {"result": {
        "dimensions": dim_json(d) if d else [],
        "measures": {measure: {"data": data, "n_missing": 0, "metadata": meta},
                     "valid_count_unweighted": {"data": [n[c][i] for c in range(ncat) for i in range(k)], "n_missing": 0, "metadata": meta}},
        "counts": cnt, "n": len(rs), "missing": 0,
    }}


class NumericArrayEndToEnd(EnumContract):
    name = "e2e:numeric-array cube (means / sums / valid counts) vs respondents"
    props = ("C01",)
    bound = ("numeric arrays of <= 3 items, ungrouped or grouped by a CAT variable of <= 4 categories (missing ones "
             "anywhere), <= 18 respondents with item-level missing answers, mean or sum measure; seeded sample")
    clauses = ("numarr-values", "numarr-valid-counts", "numarr-labels", "numarr-exception")

    def cases(self, cfg, seed, thorough):
        rnd = random.Random(9900 + seed)
        for _ in range(2000 if thorough else 250):
            yield gen_numarr_case(rnd)

    def check_case(self, case, cfg):
        import warnings
        from cr.cube.cube import Cube

        warnings.simplefilter("ignore")
        d, k, rs, measure = case["dim"], case["k"], case["rs"], case["measure"]
        bad = set()
        try:
            p = Cube(numarr_response(case)).partitions[0]
            V = valid_elems(d) if d else [0]
            if not V:
                return []

            def cell(i, j, what):
                vals = [r["v"][i] for r in rs if (not d or r["a"][0] == j) and r["v"][i] is not None]
                if what == "n":
                    return len(vals)
                if not vals:
                    return float("nan")
                return sum(vals) / len(vals) if measure == "mean" else sum(vals)

            exp = [[cell(i, j, "v") for j in V] for i in range(k)]
            exp_n = [[cell(i, j, "n") for j in V] for i in range(k)]
            got = p.means if measure == "mean" else p.sums
            got_n = p.unweighted_counts
            if not d:
                exp, exp_n = [row[0] for row in exp], [row[0] for row in exp_n]
            if not close(got, exp):
                bad.add("numarr-values")
            if not close(got_n, exp_n):
                bad.add("numarr-valid-counts")
            if list(p.row_labels) != ["Item %d" % i for i in range(k)]:
                bad.add("numarr-labels")
            if d and list(p.column_labels) != ["%s%d" % (d["name"], d["cats"][j]["id"]) for j in V]:
                bad.add("numarr-labels")
        except Exception as e:
            bad.add("numarr-exception:%s" % type(e).__name__)
        return sorted(bad)


REGISTRY.append(NumericArrayEndToEnd())


# =======================================================================================
# C13, overlapping multiple-response columns: CAT x MR responses that carry the overlap
# measures, through the public API


def gen_overlap_case(rnd):
    rd = gen_dim(rnd, "CAT", "a")
    rd.pop("doc_order", None)
    cd = dict(kind="MR", name="b", n=rnd.choice([2, 3]))
    rs = gen_respondents(rnd, [rd, cd], rnd.choice([8, 15, 30]), False)
    tr = {}
    t = {}
    if rnd.random() < 0.4:
        t["order"] = {"type": "explicit", "element_ids": rnd.sample(list(range(1, cd["n"] + 1)), cd["n"])}
    if rnd.random() < 0.25:
        t["elements"] = {str(rnd.randrange(1, cd["n"] + 1)): {"hide": True}}
    if t:
        tr["columns_dimension"] = t
    pw = {}
    alpha = rnd.choice([None, 0.05, [0.3, 0.05], 0.6])
    if alpha is not None:
        pw["alpha"] = alpha
    r = rnd.random()
    if r < 0.45:
        pw["only_larger"] = False
    if pw:
        tr["pairwise_indices"] = pw
    return dict(dims=[rd, cd], rs=rs, weighted=False, transforms=tr)


def overlap_response(dims, rs):
    rd, cd = dims
    resp = tabulate(dims, rs, False)
    nr, k = len(rd["cats"]), cd["n"]
    ov = [0] * (nr * k * 3 * k)
    vo = [0] * (nr * k * 3 * k)
    for r in rs:
        c, items = r["a"]
        for a in range(k):
            for b in range(k):
                flat = ((c * k + a) * 3 + items[a]) * k + b
                if items[b] == SEL:
                    ov[flat] += 1
                if items[b] != MIS:
                    vo[flat] += 1
    meta = {"type": {"class": "numeric", "subvariables": ["%04d" % i for i in range(k)]}, "references": {}}
    resp["result"]["measures"]["overlap"] = {"data": ov, "n_missing": 0, "metadata": meta}
    resp["result"]["measures"]["valid_overlap"] = {"data": vo, "n_missing": 0, "metadata": meta}
    return resp


class OverlapPairwiseEndToEnd(EnumContract):
    name = "e2e:overlap-corrected pairwise tests and index sets (CAT x MR with overlap measures, public API)"
    props = ("C13", "C05")
    bound = ("CAT (<= 4 categories, missing anywhere) x MR (2-3 items) unweighted responses with overlap / valid_overlap "
             "measures tabulated from <= 30 respondents, optional explicit order / hidden item, alpha and only_larger "
             "variants; seeded sample")
    clauses = ("overlap-t", "overlap-p-other-items", "overlap-p-self", "overlap-indices", "overlap-never-self", "overlap-exception")

    def cases(self, cfg, seed, thorough):
        rnd = random.Random(9700 + seed)
        for _ in range(1500 if thorough else 200):
            yield gen_overlap_case(rnd)

    def check_case(self, case, cfg):
        import numpy as np
        import warnings
        from scipy.stats import t as tdist
        from cr.cube.cube import Cube

        warnings.simplefilter("ignore")
        dims, rs, tr = case["dims"], case["rs"], case["transforms"]
        rd, cd = dims
        R, K = valid_elems(rd), cd["n"]
        if not R:
            return []
        bad = set()
        try:
            p = Cube(overlap_response(dims, rs), transforms=copy.deepcopy(tr) or None, population=1000).partitions[0]
            co = [int(i) for i in p.column_order()]
            ro = [int(i) for i in p.row_order()]
            valid_rs = [r for r in rs if not rd["cats"][r["a"][0]]["missing"]]
            S = np.array([[sum(1 for r in valid_rs if r["a"][1][a] == SEL and r["a"][1][b] == SEL) for b in range(K)] for a in range(K)], dtype=float)
            N = np.array([[sum(1 for r in valid_rs if r["a"][1][a] != MIS and r["a"][1][b] != MIS) for b in range(K)] for a in range(K)], dtype=float)
            cnt = np.array([[sum(1 for r in valid_rs if r["a"][0] == i and r["a"][1][a] == SEL) for a in range(K)] for i in R], dtype=float)
            with np.errstate(all="ignore"):
                colp = cnt / cnt.sum(axis=0, keepdims=True)

            def tp(a, b, row):
                if a == b:
                    return 0.0, 1.0
                with np.errstate(all="ignore"):
                    pa, pb, pab = S[a, a] / N[a, a], S[b, b] / N[b, b], S[a, b] / N[a, b]
                    df = N[a, a] + N[b, b] - N[a, b]
                    t = (colp[row, b] - colp[row, a]) / np.sqrt(1 / df * (pa * (1 - pa) + pb * (1 - pb) + 2 * pa * pb - 2 * pab))
                    pv = 2 * (1 - tdist.cdf(abs(t), df - 2))
                return float(t), float(pv)

            alpha_cfg = (tr.get("pairwise_indices") or {}).get("alpha")
            a1 = 0.05 if not alpha_cfg else (alpha_cfg if isinstance(alpha_cfg, float) else sorted(alpha_cfg[:2])[0])
            only_larger = (tr.get("pairwise_indices") or {}).get("only_larger", True) is not False
            idx = p.pairwise_indices
            for c, a in enumerate(co):
                gt = np.asarray(p.pairwise_significance_t_stats(c), dtype=float)
                gp = np.asarray(p.pairwise_significance_p_vals(c), dtype=float)
                for rr, row in enumerate(ro):
                    exp_set = []
                    skip = False
                    for kpos, b in enumerate(co):
                        et, ep = tp(a, b, row)
                        if not close([gt[rr, kpos]], [et], 1e-6):
                            bad.add("overlap-t")
                        if b == a:
                            if not close([gp[rr, kpos]], [1.0]):
                                bad.add("overlap-p-self")
                            continue
                        if not close([gp[rr, kpos]], [ep], 1e-6):
                            bad.add("overlap-p-other-items")
                        if ep == ep and abs(ep - a1) < 1e-7:
                            skip = True
                        if ep < a1 and (not only_larger or et < 0):
                            exp_set.append(kpos)
                    got = tuple(int(x) for x in idx[rr][c])
                    if c in got:
                        bad.add("overlap-never-self")
                    if not skip and tuple(k_ for k_ in got if k_ != c) != tuple(exp_set):
                        bad.add("overlap-indices")
        except Exception as e:
            bad.add("overlap-exception:%s" % type(e).__name__)
        return sorted(bad)


REGISTRY.append(OverlapPairwiseEndToEnd())


def gen_means_pairwise_case(rnd):
    dims = [gen_dim(rnd, "CAT", "a"), gen_dim(rnd, "CAT", "b")]
    for d in dims:
        d.pop("doc_order", None)
    rs = gen_respondents(rnd, dims, rnd.choice([10, 20, 40]), False)
    for r in rs:
        r["y"] = float(rnd.choice([0, 1, 2, 3, 5, 8, 2.5, -1]))
    ids = [c["id"] for c in dims[1]["cats"]]
    t = {}
    if rnd.random() < 0.3:
        t["insertions"] = [{"function": "subtotal", "name": "s", "anchor": rnd.choice(["top", "bottom"] + ids),
                            "args": rnd.sample(ids, rnd.choice([1, min(2, len(ids))])), "id": 1}]
    if rnd.random() < 0.3:
        t["elements"] = {str(rnd.choice(ids)): {"hide": True}}
    if rnd.random() < 0.4:
        t["order"] = {"type": "explicit", "element_ids": rnd.sample(ids, len(ids))}
    tr = {"columns_dimension": t} if t else {}
    alpha = rnd.choice([None, 0.05, [0.3, 0.05], [0.1, 0.45], 0.6])
    pw = {}
    if alpha is not None:
        pw["alpha"] = alpha
    r = rnd.random()
    if r < 0.4:
        pw["only_larger"] = False
    if pw:
        tr["pairwise_indices"] = pw
    return dict(dims=dims, rs=rs, weighted=False, transforms=tr)


def means_response(dims, rs):
    """CAT x CAT response carrying the mean and the (sample) standard deviation of a numeric
    variable per cell; a cell without respondents has no mean, with fewer than two no deviation"""
    resp = tabulate(dims, rs, False)
    nr, nc = len(dims[0]["cats"]), len(dims[1]["cats"])
    cells = {}
    for r in rs:
        cells.setdefault((r["a"][0], r["a"][1]), []).append(r["y"])
    mean, sd = [], []
    for i in range(nr):
        for j in range(nc):
            ys = cells.get((i, j), [])
            m = math.fsum(ys) / len(ys) if ys else None
            mean.append(m if ys else {"?": -8})
            sd.append(math.sqrt(math.fsum((y - m) ** 2 for y in ys) / (len(ys) - 1)) if len(ys) > 1 else {"?": -8})
    meta = {"references": {"alias": "y", "name": "y"}, "type": {"class": "numeric"}}
    resp["result"]["measures"]["mean"] = {"data": mean, "n_missing": 0, "metadata": meta}
    resp["result"]["measures"]["stddev"] = {"data": sd, "n_missing": 0, "metadata": meta}
    return resp, cells


class MeansPairwiseEndToEnd(EnumContract):
    name = "e2e:pairwise tests on cell means (Welch) and their index sets vs respondents (public API)"
    props = ("C13", "C05")
    bound = ("CAT x CAT unweighted responses with mean / stddev measures of a numeric variable tabulated from <= 40 respondents, "
             "<= 4 categories (missing anywhere), optional column subtotal / hide / explicit order, alpha and only_larger "
             "variants; seeded sample")
    clauses = ("means-t", "means-p", "means-subtotal-nan", "means-indices", "means-indices-alt", "means-never-self", "means-exception")

    def cases(self, cfg, seed, thorough):
        rnd = random.Random(9950 + seed)
        for _ in range(1500 if thorough else 200):
            yield gen_means_pairwise_case(rnd)

    def check_case(self, case, cfg):
        import numpy as np
        import warnings
        from scipy.stats import t as tdist
        from cr.cube.cube import Cube

        warnings.simplefilter("ignore")
        dims, rs, tr = case["dims"], case["rs"], case["transforms"]
        rd, cd = dims
        R, C = valid_elems(rd), valid_elems(cd)
        if not R or not C:
            return []
        bad = set()
        try:
            resp, cells = means_response(dims, rs)
            p = Cube(resp, transforms=copy.deepcopy(tr) or None, population=1000).partitions[0]
            co = [int(i) for i in p.column_order()]
            ro = [int(i) for i in p.row_order()]

            def stats(i, j):
                ys = cells.get((R[i], C[j]), [])
                n = len(ys)
                m = math.fsum(ys) / n if n else float("nan")
                v = math.fsum((y - m) ** 2 for y in ys) / (n - 1) if n > 1 else float("nan")
                return m, v, float(n)

            def tp(i, a, b):
                """compared column b against selected column a in base row i"""
                if a < 0 or b < 0 or i < 0:
                    return float("nan"), float("nan")
                (ma, va, na), (mb, vb, nb) = stats(i, a), stats(i, b)
                with np.errstate(all="ignore"):
                    se2 = np.float64(vb) / nb + np.float64(va) / na
                    t = (np.float64(mb) - ma) / np.sqrt(se2)
                    df = se2 ** 2 / ((np.float64(vb) / nb) ** 2 / (nb - 1) + (np.float64(va) / na) ** 2 / (na - 1))
                    pv = 2 * (1 - tdist.cdf(abs(t), df))
                return float(t), float(pv)

            alpha_cfg = (tr.get("pairwise_indices") or {}).get("alpha")
            if not alpha_cfg:
                a1, a2 = 0.05, None
            elif isinstance(alpha_cfg, float):
                a1, a2 = alpha_cfg, None
            else:
                al = sorted(alpha_cfg[:2])
                a1, a2 = al[0], (al[1] if len(al) > 1 else None)
            only_larger = (tr.get("pairwise_indices") or {}).get("only_larger", True) is not False
            idx, idx_alt = p.pairwise_means_indices, p.pairwise_means_indices_alt
            if (a2 is None) != (idx_alt is None):
                bad.add("means-indices-alt")
            for c, a in enumerate(co):
                gt = np.asarray(p.pairwise_significance_means_t_stats(c), dtype=float)
                gp = np.asarray(p.pairwise_significance_means_p_vals(c), dtype=float)
                for rr, row in enumerate(ro):
                    exp1, exp2, skip = [], [], False
                    for kpos, b in enumerate(co):
                        et, ep = tp(row, a, b)
                        if a < 0 or b < 0:
                            if not (gt[rr, kpos] != gt[rr, kpos] and gp[rr, kpos] != gp[rr, kpos]):
                                bad.add("means-subtotal-nan")
                            continue
                        if not close([gt[rr, kpos]], [et], 1e-6):
                            bad.add("means-t")
                        if not close([gp[rr, kpos]], [ep], 1e-6):
                            bad.add("means-p")
                        if b == a:
                            continue
                        for al in (a1, a2):
                            if al is not None and ep == ep and abs(ep - al) < 1e-7:
                                skip = True
                        if ep < a1 and (not only_larger or et < 0):
                            exp1.append(kpos)
                        if a2 is not None and ep < a2 and (not only_larger or et < 0):
                            exp2.append(kpos)
                    got = tuple(int(x) for x in idx[rr][c])
                    if c in got:
                        bad.add("means-never-self")
                    if not skip and tuple(k_ for k_ in got if k_ != c) != tuple(exp1):
                        bad.add("means-indices")
                    if idx_alt is not None and a2 is not None:
                        got2 = tuple(int(x) for x in idx_alt[rr][c])
                        if c in got2:
                            bad.add("means-never-self")
                        if not skip and tuple(k_ for k_ in got2 if k_ != c) != tuple(exp2):
                            bad.add("means-indices-alt")
        except Exception as e:
            bad.add("means-exception:%s" % type(e).__name__)
        return sorted(bad)


REGISTRY.append(MeansPairwiseEndToEnd())


def gen_mr_overlap_case(rnd):
    rd = dict(kind="MR", name="a", n=rnd.choice([1, 2, 3]))
    cd = dict(kind="MR", name="b", n=rnd.choice([2, 3]))
    rs = gen_respondents(rnd, [rd, cd], rnd.choice([8, 15, 30]), False)
    tr = {}
    t = {}
    if rnd.random() < 0.4:
        t["order"] = {"type": "explicit", "element_ids": rnd.sample(list(range(1, cd["n"] + 1)), cd["n"])}
    if rnd.random() < 0.25:
        t["elements"] = {str(rnd.randrange(1, cd["n"] + 1)): {"hide": True}}
    if t:
        tr["columns_dimension"] = t
    if rnd.random() < 0.3:
        tr["rows_dimension"] = {"order": {"type": "explicit", "element_ids": rnd.sample(list(range(1, rd["n"] + 1)), rd["n"])}}
    pw = {}
    alpha = rnd.choice([None, 0.05, [0.3, 0.05], 0.6])
    if alpha is not None:
        pw["alpha"] = alpha
    if rnd.random() < 0.45:
        pw["only_larger"] = False
    if pw:
        tr["pairwise_indices"] = pw
    return dict(dims=[rd, cd], rs=rs, weighted=False, transforms=tr)


def mr_overlap_response(dims, rs):
    """MR x MR response with the overlap / valid_overlap measures: one more axis (the paired
    item of the columns MR) after the four axes of the counts"""
    rd, cd = dims
    resp = tabulate(dims, rs, False)
    kr, k = rd["n"], cd["n"]
    ov = [0] * (kr * 3 * k * 3 * k)
    vo = [0] * (kr * 3 * k * 3 * k)
    for r in rs:
        ritems, items = r["a"]
        for i in range(kr):
            for a in range(k):
                for b in range(k):
                    flat = (((i * 3 + ritems[i]) * k + a) * 3 + items[a]) * k + b
                    if items[b] == SEL:
                        ov[flat] += 1
                    if items[b] != MIS:
                        vo[flat] += 1
    meta = {"type": {"class": "numeric", "subvariables": ["%04d" % i for i in range(k)]}, "references": {}}
    resp["result"]["measures"]["overlap"] = {"data": ov, "n_missing": 0, "metadata": meta}
    resp["result"]["measures"]["valid_overlap"] = {"data": vo, "n_missing": 0, "metadata": meta}
    return resp


class MrOverlapPairwiseEndToEnd(EnumContract):
    name = "e2e:overlap-corrected pairwise tests and index sets (MR x MR with overlap measures, public API)"
    props = ("C13", "C05")
    bound = ("MR (1-3 items) x MR (2-3 items) unweighted responses with overlap / valid_overlap measures tabulated from "
             "<= 30 respondents, optional explicit order of either dimension / hidden column item, alpha and only_larger "
             "variants; seeded sample")
    clauses = ("mr-overlap-t", "mr-overlap-p-other-items", "mr-overlap-p-self", "mr-overlap-indices",
               "mr-overlap-never-self", "mr-overlap-exception")

    def cases(self, cfg, seed, thorough):
        rnd = random.Random(9900 + seed)
        for _ in range(1500 if thorough else 200):
            yield gen_mr_overlap_case(rnd)

    def check_case(self, case, cfg):
        import numpy as np
        import warnings
        from scipy.stats import t as tdist
        from cr.cube.cube import Cube

        warnings.simplefilter("ignore")
        dims, rs, tr = case["dims"], case["rs"], case["transforms"]
        rd, cd = dims
        KR, K = rd["n"], cd["n"]
        bad = set()
        try:
            p = Cube(mr_overlap_response(dims, rs), transforms=copy.deepcopy(tr) or None, population=1000).partitions[0]
            co = [int(i) for i in p.column_order()]
            ro = [int(i) for i in p.row_order()]

            def n_(pred):
                return float(sum(1 for r in rs if pred(r["a"][0], r["a"][1])))

            # per row item i: respondents with a valid answer on it
            S = np.array([[[n_(lambda x, y: x[i] != MIS and y[a] == SEL and y[b] == SEL) for b in range(K)] for a in range(K)] for i in range(KR)])
            N = np.array([[[n_(lambda x, y: x[i] != MIS and y[a] != MIS and y[b] != MIS) for b in range(K)] for a in range(K)] for i in range(KR)])
            cnt = np.array([[n_(lambda x, y: x[i] == SEL and y[a] == SEL) for a in range(K)] for i in range(KR)])
            cbase = np.array([[n_(lambda x, y: x[i] != MIS and y[a] == SEL) for a in range(K)] for i in range(KR)])
            with np.errstate(all="ignore"):
                colp = cnt / cbase

            def tp(a, b, i):
                if a == b:
                    return 0.0, 1.0
                with np.errstate(all="ignore"):
                    pa, pb, pab = S[i, a, a] / N[i, a, a], S[i, b, b] / N[i, b, b], S[i, a, b] / N[i, a, b]
                    df = N[i, a, a] + N[i, b, b] - N[i, a, b]
                    t = (colp[i, b] - colp[i, a]) / np.sqrt(1 / df * (pa * (1 - pa) + pb * (1 - pb) + 2 * pa * pb - 2 * pab))
                    pv = 2 * (1 - tdist.cdf(abs(t), df - 2))
                return float(t), float(pv)

            alpha_cfg = (tr.get("pairwise_indices") or {}).get("alpha")
            a1 = 0.05 if not alpha_cfg else (alpha_cfg if isinstance(alpha_cfg, float) else sorted(alpha_cfg[:2])[0])
            only_larger = (tr.get("pairwise_indices") or {}).get("only_larger", True) is not False
            idx = p.pairwise_indices
            for c, a in enumerate(co):
                gt = np.asarray(p.pairwise_significance_t_stats(c), dtype=float)
                gp = np.asarray(p.pairwise_significance_p_vals(c), dtype=float)
                for rr, row in enumerate(ro):
                    exp_set = []
                    skip = False
                    for kpos, b in enumerate(co):
                        et, ep = tp(a, b, row)
                        if not close([gt[rr, kpos]], [et], 1e-6):
                            bad.add("mr-overlap-t")
                        if b == a:
                            if not close([gp[rr, kpos]], [1.0]):
                                bad.add("mr-overlap-p-self")
                            continue
                        if not close([gp[rr, kpos]], [ep], 1e-6):
                            bad.add("mr-overlap-p-other-items")
                        if ep == ep and abs(ep - a1) < 1e-7:
                            skip = True
                        if ep < a1 and (not only_larger or et < 0):
                            exp_set.append(kpos)
                    got = tuple(int(x) for x in idx[rr][c])
                    if c in got:
                        bad.add("mr-overlap-never-self")
                    if not skip and tuple(k_ for k_ in got if k_ != c) != tuple(exp_set):
                        bad.add("mr-overlap-indices")
        except Exception as e:
            bad.add("mr-overlap-exception:%s" % type(e).__name__)
        return sorted(bad)


REGISTRY.append(MrOverlapPairwiseEndToEnd())


# =======================================================================================
# C08 for slices through the public API: rows sorted by an opposing element / insertion /
# marginal; the value the *public* measure reports must be monotone along the display order

SLICE_SORT_PUBLIC = {
    "col_base_unweighted": "column_unweighted_bases", "col_base_weighted": "column_weighted_bases", "col_index": "column_index",
    "col_percent": "column_percentages", "col_percent_moe": "column_proportions_moe", "col_std_dev": "column_std_dev",
    "col_std_err": "column_std_err", "population": "population_counts", "population_moe": "population_counts_moe",
    "p_value": "pvals", "row_base_unweighted": "row_unweighted_bases", "row_base_weighted": "row_weighted_bases",
    "row_percent": "row_percentages", "row_percent_moe": "row_proportions_moe", "row_std_dev": "row_std_dev",
    "row_std_err": "row_std_err", "table_base_unweighted": "table_unweighted_bases", "table_base_weighted": "table_weighted_bases",
    "table_percent": "table_percentages", "table_percent_moe": "table_proportions_moe", "table_std_dev": "table_std_dev",
    "table_std_err": "table_std_err", "count_unweighted": "unweighted_counts", "count_weighted": "counts", "z_score": "zscores",
}
SLICE_SORT_MARGINAL = {"unweighted_base": "rows_base", "weighted_base": "rows_margin", "table_proportion": "rows_margin_proportion"}


def gen_slice_sort_case(rnd):
    rd, cd = gen_dim(rnd, "CAT", "a"), gen_dim(rnd, "CAT", "b")
    for d in (rd, cd):
        d.pop("doc_order", None)
    weighted = rnd.random() < 0.5
    rs = gen_respondents(rnd, [rd, cd], rnd.choice([0, 6, 14, 30]), weighted)
    rids, cids = [c["id"] for c in rd["cats"]], [c["id"] for c in cd["cats"]]
    rt, ct = {}, {}
    if rnd.random() < 0.5:
        ins = []
        for k in range(rnd.choice([1, 2])):
            pos = rnd.sample(rids, rnd.choice([1, min(2, len(rids))]))
            one = {"function": "subtotal", "name": "s%d" % k, "anchor": rnd.choice(["top", "bottom"] + rids), "args": pos, "id": k + 1}
            if rnd.random() < 0.3:
                one = {"function": "subtotal", "name": "d%d" % k, "anchor": "bottom", "kwargs": {"positive": pos, "negative": rnd.sample(rids, 1)}, "id": k + 1}
            ins.append(one)
        rt["insertions"] = ins
    if rnd.random() < 0.4:
        ct["insertions"] = [{"function": "subtotal", "name": "cs", "anchor": "bottom", "args": rnd.sample(cids, rnd.choice([1, min(2, len(cids))])), "id": 1}]
    if rnd.random() < 0.25:
        rt["elements"] = {str(rnd.choice(rids)): {"hide": True}}
    if rnd.random() < 0.3:
        rt["prune"] = True
    kind = rnd.choice(["opposing_element", "opposing_element", "opposing_insertion", "marginal"])
    order = {"type": kind}
    r = rnd.random()
    if r < 0.4:
        order["direction"] = "ascending"
    elif r < 0.6:
        order["direction"] = "descending"
    if kind == "opposing_element":
        order.update(element_id=rnd.choice(cids + [77]), measure=rnd.choice(sorted(SLICE_SORT_PUBLIC) + ["mean", "bogus_measure"]))
    elif kind == "opposing_insertion":
        order.update(insertion_id=rnd.choice([1, 1, 55]), measure=rnd.choice(sorted(SLICE_SORT_PUBLIC)))
    else:
        order.update(marginal=rnd.choice(sorted(SLICE_SORT_MARGINAL) + ["scale_mean", "bogus_marginal"]))
    if rnd.random() < 0.4:
        fixed = {}
        if rnd.random() < 0.6:
            fixed["top"] = rnd.sample(rids, 1)
        if rnd.random() < 0.6:
            fixed["bottom"] = rnd.sample(rids, 1)
        if fixed:
            order["fixed"] = fixed
    rt["order"] = order
    tr = {"rows_dimension": rt}
    if ct:
        tr["columns_dimension"] = ct
    return dict(dims=[rd, cd], rs=rs, weighted=weighted, transforms=tr)


class SliceSortByValue(EnumContract):
    name = "e2e:_Slice rows sorted by opposing element / insertion / marginal (public API)"
    props = ("C08",)
    bound = ("CAT x CAT responses (<= 4 categories, missing anywhere, <= 30 respondents, fractional weights), row subtotals / "
             "differences, a column subtotal, hidden / pruned rows, fixed top / bottom, every supported measure keyword plus "
             "unsupported ones, unknown element / insertion ids; rows dimension only; seeded sample")
    clauses = ("slice-body-monotone", "slice-nan-last-in-payload-order", "slice-population-nan-last", "slice-subtotal-group",
               "slice-fixed-brackets", "slice-fallback-payload-order", "slice-no-duplicates", "slice-sort-exception")

    def cases(self, cfg, seed, thorough):
        rnd = random.Random(9600 + seed)
        for _ in range(4000 if thorough else 500):
            yield gen_slice_sort_case(rnd)

    def check_case(self, case, cfg):
        import numpy as np
        import warnings
        from cr.cube.cube import Cube

        warnings.simplefilter("ignore")
        dims, rs, weighted, tr = case["dims"], case["rs"], case["weighted"], case["transforms"]
        rd, cd = dims
        R, C = valid_elems(rd), valid_elems(cd)
        if not R or not C:
            return []
        bad = set()
        try:
            rt = tr["rows_dimension"]
            spec_ = rt["order"]
            p = Cube(tabulate(dims, rs, weighted), transforms=copy.deepcopy(tr), population=1000).partitions[0]
            order = [int(o) for o in p.row_order()]
            if len(set(order)) != len(order):
                bad.add("slice-no-duplicates")
            plain = copy.deepcopy(tr)
            plain["rows_dimension"] = {k: v for k, v in rt.items() if k != "order"}
            p0 = Cube(tabulate(dims, rs, weighted), transforms=plain, population=1000).partitions[0]
            payload = [int(o) for o in p0.row_order()]
            co = [int(o) for o in p.column_order()]
            cids = [cd["cats"][j]["id"] for j in C]
            # which public vector is the sort key?
            vec = None
            if spec_["type"] == "opposing_element":
                if spec_["measure"] in SLICE_SORT_PUBLIC and spec_["element_id"] in cids and cids.index(spec_["element_id"]) in co:
                    vec = np.asarray(getattr(p, SLICE_SORT_PUBLIC[spec_["measure"]]), dtype=float)[:, co.index(cids.index(spec_["element_id"]))]
                elif spec_["measure"] in SLICE_SORT_PUBLIC and spec_["element_id"] in cids:
                    return []  # key column not displayed: nothing public to compare with
            elif spec_["type"] == "opposing_insertion":
                c_ins = (tr.get("columns_dimension") or {}).get("insertions") or []
                alive = [i for i in c_ins if set(i["args"]) & set(cids)]
                hit = [k for k, i in enumerate(alive) if i.get("id") == spec_["insertion_id"]]
                if hit and (hit[0] - len(alive)) in co:
                    vec = np.asarray(getattr(p, SLICE_SORT_PUBLIC[spec_["measure"]]), dtype=float)[:, co.index(hit[0] - len(alive))]
                elif hit:
                    return []  # key column not displayed: nothing public to compare with
            elif spec_["marginal"] in SLICE_SORT_MARGINAL:
                vec = np.asarray(getattr(p, SLICE_SORT_MARGINAL[spec_["marginal"]]), dtype=float)
            if vec is None:
                if order != payload:
                    bad.add("slice-fallback-payload-order")
                return sorted(bad)
            if sorted(order) != sorted(payload):
                bad.add("slice-no-duplicates")
                return sorted(bad)
            desc = spec_.get("direction", "descending") != "ascending"
            ids = [rd["cats"][i]["id"] for i in R]
            fixed = spec_.get("fixed") or {}
            top = [ids.index(i) for i in fixed.get("top", []) if i in ids]
            bottom = [ids.index(i) for i in fixed.get("bottom", []) if i in ids and ids.index(i) not in top]
            pos = {o: k for k, o in enumerate(order)}
            subs = [o for o in order if o < 0]
            base = [o for o in order if o >= 0]
            vis_top = [o for o in top if o in pos]
            vis_bottom = [o for o in bottom if o in pos]
            body = [o for o in base if o not in vis_top and o not in vis_bottom]
            exp_layout = (subs if desc else []) + vis_top + body + vis_bottom + ([] if desc else subs)
            if order != exp_layout:
                bad.add("slice-fixed-brackets" if base != vis_top + body + vis_bottom else "slice-subtotal-group")
            key = spec_.get("measure", "")
            nan_clause = "slice-population-nan-last" if key.startswith("population") else "slice-nan-last-in-payload-order"

            def monotone(seq, clause):
                v = [vec[pos[o]] for o in seq]
                fin = [x for x in v if x == x]
                k = len(fin)
                if any(x != x for x in v[:k]):
                    bad.add(nan_clause)
                    return
                for a, b in zip(fin, fin[1:]):
                    if (a < b - 1e-9 * max(1, abs(b))) if desc else (a > b + 1e-9 * max(1, abs(b))):
                        bad.add(clause)
                if list(seq[k:]) != sorted(seq[k:]):
                    bad.add(nan_clause)

            monotone(body, "slice-body-monotone")
            monotone(subs, "slice-subtotal-group")
        except Exception as e:
            bad.add("slice-sort-exception:%s" % type(e).__name__)
        return sorted(bad)


REGISTRY.append(SliceSortByValue())


# =======================================================================================
# C20 through the public API


def gen_smoothing_case(rnd):
    date_cols = rnd.random() < 0.8
    rd = gen_dim(rnd, "CAT", "a")
    cd = gen_dim(rnd, "CAT_DATE" if date_cols else "CAT", "b")
    for d in (rd, cd):
        d.pop("doc_order", None)
    # more periods than the usual bound so that windows fit
    n = rnd.choice([1, 2, 3, 4, 5, 6])
    cd["cats"] = [dict(id=i + 1, missing=(rnd.random() < 0.15)) for i in range(n)]
    if all(c["missing"] for c in cd["cats"]):
        cd["cats"][0]["missing"] = False
    weighted = rnd.random() < 0.5
    rs = gen_respondents(rnd, [rd, cd], rnd.choice([0, 10, 25, 40]), weighted)
    for c in rd["cats"]:
        c["nv"] = None if rnd.random() < 0.3 else rnd.choice([-1, 0, 1, 2, 5])
    sm = {"function": "one_sided_moving_avg"}
    w = rnd.choice([None, 0, 1, 2, 3, 4, 7])
    if w is not None:
        sm["window"] = w
    return dict(dims=[rd, cd], rs=rs, weighted=weighted, window=w, transforms={"columns_dimension": {"smoother": sm}})


class SmoothingEndToEnd(EnumContract):
    name = "e2e:smoothed column proportions / percentages / index vs trailing means of the unsmoothed values"
    props = ("C20",)
    bound = ("CAT x CAT_DATE (or CAT x CAT) responses, <= 4 rows, <= 6 periods (missing ones anywhere), <= 40 respondents, "
             "window in {absent, 0, 1, 2, 3, 4, 7}; seeded sample")
    clauses = ("smoothed-proportions", "smoothed-percentages", "smoothed-index", "smoothed-scale-mean",
               "unsmoothed-when-not-applicable", "smoothing-exception")

    def cases(self, cfg, seed, thorough):
        rnd = random.Random(9800 + seed)
        for _ in range(2000 if thorough else 250):
            yield gen_smoothing_case(rnd)

    def check_case(self, case, cfg):
        import numpy as np
        import warnings
        from cr.cube.cube import Cube

        warnings.simplefilter("ignore")
        dims, rs, weighted, tr, w = case["dims"], case["rs"], case["weighted"], case["transforms"], case["window"]
        rd, cd = dims
        if not valid_elems(rd) or not valid_elems(cd):
            return []
        bad = set()
        try:
            p = Cube(tabulate(dims, rs, weighted), transforms=copy.deepcopy(tr), population=1000).partitions[0]
            p0 = Cube(tabulate(dims, rs, weighted), population=1000).partitions[0]
            weff = w if w else 2
            n = len(valid_elems(cd))
            applies = cd["kind"] == "CAT_DATE" and 2 <= weff <= n

            def trailing(x):
                x = np.asarray(x, dtype=float)
                out = np.full(x.shape, np.nan)
                for t in range(weff - 1, x.shape[1]):
                    out[:, t] = x[:, t - weff + 1:t + 1].sum(axis=1) / weff
                return out

            for name, src, clause in (("smoothed_column_proportions", "column_proportions", "smoothed-proportions"),
                                      ("smoothed_column_percentages", "column_percentages", "smoothed-percentages"),
                                      ("smoothed_column_index", "column_index", "smoothed-index")):
                got = np.asarray(getattr(p, name), dtype=float)
                plain = np.asarray(getattr(p0, src), dtype=float)
                if applies:
                    if not close(got, trailing(plain), 1e-7):
                        bad.add(clause)
                elif not close(got, plain, 1e-9):
                    bad.add("unsmoothed-when-not-applicable")
            # the smoothed scale mean is the scale mean *of the smoothed proportions*
            R = valid_elems(rd)
            nv = np.array([np.nan if rd["cats"][i].get("nv") is None else rd["cats"][i]["nv"] for i in R], dtype=float)
            got_sm = p.smoothed_columns_scale_mean
            if np.all(np.isnan(nv)):
                if got_sm is not None:
                    bad.add("smoothed-scale-mean")
            else:
                props = np.asarray(p0.column_proportions, dtype=float)
                sp = trailing(props) if applies else props
                has = ~np.isnan(nv)
                with np.errstate(all="ignore"):
                    exp_sm = np.nansum(nv[has][:, None] * sp[has, :], axis=0) / np.sum(sp[has, :], axis=0)
                if got_sm is None or not close(np.asarray(got_sm, dtype=float), exp_sm, 1e-7):
                    bad.add("smoothed-scale-mean")
        except Exception as e:
            bad.add("smoothing-exception:%s" % type(e).__name__)
        return sorted(bad)


REGISTRY.append(SmoothingEndToEnd())


# =======================================================================================
# C15 through the public API: share of sum with subtotals on both dimensions


def gen_sharesum_case(rnd):
    rd, cd = gen_dim(rnd, "CAT", "a"), gen_dim(rnd, "CAT", "b")
    for d in (rd, cd):
        d.pop("doc_order", None)
    rs = gen_respondents(rnd, [rd, cd], rnd.choice([0, 5, 12, 25]), False)
    for r in rs:
        r["v"] = None if rnd.random() < 0.2 else rnd.choice([1, 2, 3, 5, 10])
    tr = {}
    for side, d in (("rows_dimension", rd), ("columns_dimension", cd)):
        ids = [c["id"] for c in d["cats"]]
        t = {}
        if rnd.random() < 0.6:
            ins = []
            for k in range(rnd.choice([1, 2])):
                pos = rnd.sample(ids, rnd.choice([1, min(2, len(ids))]))
                ins.append({"function": "subtotal", "name": "s%d" % k, "anchor": rnd.choice(["top", "bottom"] + ids), "args": pos, "id": k + 1})
            t["insertions"] = ins
        if rnd.random() < 0.3:
            t["order"] = {"type": "explicit", "element_ids": rnd.sample(ids, len(ids))}
        if rnd.random() < 0.2:
            t["elements"] = {str(rnd.choice(ids)): {"hide": True}}
        if t:
            tr[side] = t
    return dict(dims=[rd, cd], rs=rs, transforms=tr)


class ShareSumEndToEnd(EnumContract):
    name = "e2e:row / column / total share of sum with subtotals vs respondents (public API)"
    props = ("C15", "C04")
    bound = ("CAT x CAT responses carrying a sum measure (cells without a numeric answer unavailable), <= 4 categories per "
             "dimension, <= 25 respondents, up to 2 subtotals per dimension (no differences), explicit order, hidden element; "
             "seeded sample")
    clauses = ("row-share", "column-share", "total-share", "sums", "share-exception")

    def cases(self, cfg, seed, thorough):
        rnd = random.Random(9400 + seed)
        for _ in range(2500 if thorough else 300):
            yield gen_sharesum_case(rnd)

    def check_case(self, case, cfg):
        import numpy as np
        import warnings
        from cr.cube.cube import Cube

        warnings.simplefilter("ignore")
        dims, rs, tr = case["dims"], case["rs"], case["transforms"]
        rd, cd = dims
        R, C = valid_elems(rd), valid_elems(cd)
        if not R or not C:
            return []
        bad = set()
        try:
            resp = tabulate(dims, rs, False)
            nr, nc = len(rd["cats"]), len(cd["cats"])
            tot = [0.0] * (nr * nc)
            has = [False] * (nr * nc)
            for r in rs:
                if r["v"] is not None:
                    k = r["a"][0] * nc + r["a"][1]
                    tot[k] += r["v"]
                    has[k] = True
            meta = {"references": {"alias": "num", "name": "num"}, "type": {"class": "numeric"}}
            resp["result"]["measures"]["sum"] = {"data": [tot[k] if has[k] else {"?": -8} for k in range(nr * nc)], "n_missing": 0, "metadata": meta}
            p = Cube(resp, transforms=copy.deepcopy(tr) or None, population=1000).partitions[0]
            ro, co = [int(o) for o in p.row_order()], [int(o) for o in p.column_order()]
            nan = float("nan")
            S = np.array([[tot[i * nc + j] if has[i * nc + j] else nan for j in C] for i in R])

            def alive(side, d, V):
                ids = [d["cats"][i]["id"] for i in V]
                out = []
                for one in (tr.get(side) or {}).get("insertions") or []:
                    if set(one["args"]) & set(ids):
                        out.append([ids.index(i) for i in ids if i in one["args"]])
                return out

            r_ins, c_ins = alive("rows_dimension", rd, R), alive("columns_dimension", cd, C)

            def members(o, ins):
                return [o] if o >= 0 else ins[o + len(ins)]

            # a subtotal's sum is the plain sum of its addends (unavailable -> unavailable)
            def cell_sum(o_r, o_c):
                return S[np.ix_(members(o_r, r_ins), members(o_c, c_ins))].sum()

            sums = np.array([[cell_sum(a, b) for b in co] for a in ro]) if ro and co else np.zeros((len(ro), len(co)))
            with np.errstate(all="ignore"):
                # "its sum divided by the total of its row / column / the table, every total taken
                # over base rows and columns only" (unavailable cells skipped in a total)
                nb_r, nb_c = range(len(R)), range(len(C))
                row_tot = {a: np.nansum([cell_sum(a, j) for j in nb_c]) for a in ro}
                col_tot = {b: np.nansum([cell_sum(i, b) for i in nb_r]) for b in co}
                all_tot = np.nansum(S)
                exp_row = np.array([[cell_sum(a, b) / row_tot[a] for b in co] for a in ro]) if ro and co else sums
                exp_col = np.array([[cell_sum(a, b) / col_tot[b] for b in co] for a in ro]) if ro and co else sums
                exp_tot = sums / all_tot
            if not close(p.sums, sums, 1e-9):
                bad.add("sums")
            if not close(p.row_share_sum, exp_row, 1e-9):
                bad.add("row-share")
            if not close(p.column_share_sum, exp_col, 1e-9):
                bad.add("column-share")
            if not close(p.total_share_sum, exp_tot, 1e-9):
                bad.add("total-share")
        except Exception as e:
            bad.add("share-exception:%s" % type(e).__name__)
        return sorted(bad)


REGISTRY.append(ShareSumEndToEnd())


# =======================================================================================
# C19 through the public API: every spelling of an array-item reference gives the same output


def gen_spelling_case(rnd):
    md = dict(kind="MR", name="m", n=rnd.choice([2, 3]))
    other = gen_dim(rnd, "CAT", "c")
    other.pop("doc_order", None)
    mr_rows = rnd.random() < 0.5
    dims = [md, other] if mr_rows else [other, md]
    one_d = rnd.random() < 0.25
    if one_d:
        dims = [md]
    rs = gen_respondents(rnd, dims, rnd.choice([5, 12, 25]), rnd.random() < 0.4)
    n = md["n"]
    plan = dict(
        order=rnd.sample(range(n), rnd.choice([n, n - 1])) if rnd.random() < 0.6 else None,
        hide=rnd.randrange(n) if rnd.random() < 0.4 else None,
        rename=rnd.randrange(n) if rnd.random() < 0.3 else None,
        sort_by=(rnd.randrange(n) if (not one_d and rnd.random() < 0.4) else None),
        fixed_bottom=(rnd.randrange(n) if rnd.random() < 0.3 else None),
        stale=rnd.random() < 0.3,
    )
    return dict(dims=dims, rs=rs, weighted=False, plan=plan, mr_axis=(0 if (one_d or mr_rows) else 1), one_d=one_d)


class SpellingsEndToEnd(EnumContract):
    name = "e2e:array-item references by id / string id / alias / sub-variable id give identical output (public API)"
    props = ("C19",)
    bound = ("MR strands and MR x CAT / CAT x MR slices, 2-3 items, <= 25 respondents; explicit order, hide, rename, sort by "
             "opposing item and fixed-bottom transforms, each written with the int id, the string id, the alias and the "
             "sub-variable id of the items, optionally with a reference that matches nothing; seeded sample")
    clauses = ("same-output-for-every-spelling", "stale-references-ignored", "spelling-exception")

    def cases(self, cfg, seed, thorough):
        rnd = random.Random(9300 + seed)
        for _ in range(1500 if thorough else 200):
            yield gen_spelling_case(rnd)

    def check_case(self, case, cfg):
        import warnings
        from cr.cube.cube import Cube

        warnings.simplefilter("ignore")
        dims, rs, plan, ax = case["dims"], case["rs"], case["plan"], case["mr_axis"]
        md = dims[ax]
        name = md["name"]
        spellings = {
            "int": lambda i: i + 1,
            "str": lambda i: str(i + 1),
            "alias": lambda i: "%s_%d" % (name, i),
            "subvar-id": lambda i: "%04d" % i,
            # a number that is no element id (ids are 1..n) is a zero-based position: 0 is item 0
            "position": lambda i: 0 if i == 0 else i + 1,
        }
        side = "rows_dimension" if ax == 0 else "columns_dimension"
        oside = "columns_dimension" if ax == 0 else "rows_dimension"

        def transforms(sp, stale):
            t = {}
            if plan["order"] is not None:
                ids = [sp(i) for i in plan["order"]]
                if stale:
                    ids = ids[:1] + ["no_such_item"] + ids[1:]
                t["order"] = {"type": "explicit", "element_ids": ids}
            els = {}
            if plan["hide"] is not None:
                els[str(sp(plan["hide"]))] = {"hide": True}
            if plan["rename"] is not None:
                els.setdefault(str(sp(plan["rename"])), {})["name"] = "renamed"
            if stale:
                els["no_such_item"] = {"hide": True}
            if els:
                t["elements"] = els
            out = {side: t} if t else {}
            if plan["sort_by"] is not None and not case["one_d"]:
                o = {"type": "opposing_element", "element_id": sp(plan["sort_by"]), "measure": "count_unweighted"}
                if plan["fixed_bottom"] is not None:
                    pass
                out[oside] = {"order": o}
            if plan["fixed_bottom"] is not None and plan["order"] is None:
                out.setdefault(side, {})["order"] = {"type": "label", "fixed": {"bottom": [sp(plan["fixed_bottom"])]}}
            return out

        def snapshot(tr):
            p = Cube(tabulate(dims, rs, False), transforms=tr or None, population=1000).partitions[0]
            snap = [[int(x) for x in p.row_order()], [str(x) for x in p.row_labels], norm_list(p.counts)]
            if not case["one_d"]:
                snap += [[int(x) for x in p.column_order()], [str(x) for x in p.column_labels]]
            return snap

        def norm_list(a):
            import numpy as np

            return [None if x != x else round(float(x), 9) for x in np.asarray(a, dtype=float).ravel()]

        bad = set()
        try:
            ref = snapshot(transforms(spellings["int"], False))
            for nm, sp in spellings.items():
                if snapshot(transforms(sp, False)) != ref:
                    bad.add("same-output-for-every-spelling")
            if plan["stale"]:
                for nm, sp in spellings.items():
                    if snapshot(transforms(sp, True)) != ref:
                        bad.add("stale-references-ignored")
        except Exception as e:
            bad.add("spelling-exception:%s" % type(e).__name__)
        return sorted(bad)


REGISTRY.append(SpellingsEndToEnd())
