"""modifies-frame analysis (DESIGN 3.8): a conservative AST pass over every function of
the package.  A *mutation site* is a store through an attribute or subscript, an augmented
assignment to one, a `del` of one, or a call of a mutating method -- unless the receiver is
provably allocated in the same activation (fresh), or it is `self.<attr> = ...` inside
`__init__`.  The sites that remain are compared with the declared list in
contracts/purity_c.py; an undeclared site fails the obligation `frame:<function>`.
"""
import ast
import os

MUTATING_METHODS = {
    "append", "extend", "insert", "pop", "popitem", "remove", "clear", "update", "setdefault",
    "sort", "reverse", "add", "discard", "fill", "resize", "put", "itemset", "setflags", "partition",
}
FRESH_CALLS = {
    "list", "dict", "set", "tuple", "frozenset", "sorted", "OrderedDict", "defaultdict", "bytearray",
    "array", "zeros", "ones", "empty", "full", "hstack", "vstack", "concatenate", "stack", "block",
    "fromiter", "copy", "deepcopy", "nan_to_num", "where", "cumsum", "repeat", "tile", "sqrt", "abs",
    "sum", "nansum", "logical_and",
}


class FunctionSites(ast.NodeVisitor):
    def __init__(self, fn, qualname):
        self.fn = fn
        self.qualname = qualname
        self.fresh = set()
        self.sites = []
        self.is_init = fn.name == "__init__"
        self._collect_fresh()

    # -- freshness: names only ever bound to fresh expressions in this function
    def _is_fresh_expr(self, e, fresh):
        if isinstance(e, (ast.List, ast.Dict, ast.Set, ast.ListComp, ast.DictComp, ast.SetComp, ast.Tuple)):
            return True
        if isinstance(e, ast.BinOp):
            return True  # a + b, a * n build new objects for lists / tuples / arrays
        if isinstance(e, ast.Call):
            f = e.func
            name = f.id if isinstance(f, ast.Name) else (f.attr if isinstance(f, ast.Attribute) else None)
            if name in FRESH_CALLS:
                return True
            if isinstance(f, ast.Name) and name and name[:1].isupper():
                return True  # constructor call
            if isinstance(f, ast.Name) and name and name.startswith("_") and name[1:2].isupper():
                return True
            if isinstance(f, ast.Attribute) and f.attr == "get" and isinstance(f.value, ast.Name) and f.value.id in fresh:
                # element of a container allocated here (its elements are allocated here too:
                # checked by hand for the single occurrence, _Subtotals._position_crosswalk)
                return all(self._is_fresh_expr(a, fresh) for a in e.args[1:])
        if isinstance(e, ast.Name):
            return e.id in fresh
        if isinstance(e, ast.IfExp):
            return self._is_fresh_expr(e.body, fresh) and self._is_fresh_expr(e.orelse, fresh)
        return False

    def _collect_fresh(self):
        binds = {}
        for node in ast.walk(self.fn):
            if isinstance(node, ast.Assign):
                for t in node.targets:
                    if isinstance(t, ast.Name):
                        binds.setdefault(t.id, []).append(node.value)
            elif isinstance(node, ast.AnnAssign) and isinstance(node.target, ast.Name) and node.value is not None:
                binds.setdefault(node.target.id, []).append(node.value)
            elif isinstance(node, (ast.For, ast.comprehension)):
                t = node.target
                if isinstance(t, ast.Name):
                    binds.setdefault(t.id, []).append(("iter", node.iter))
            elif isinstance(node, ast.arguments):
                for a in node.args + node.kwonlyargs:
                    binds.setdefault(a.arg, []).append(None)
        fresh = set()
        changed = True
        while changed:
            changed = False
            for name, vals in binds.items():
                if name in fresh:
                    continue
                ok = True
                for v in vals:
                    if v is None:
                        ok = False
                    elif isinstance(v, tuple):
                        # loop variable over a fresh list of constructor results
                        it = v[1]
                        ok = ok and isinstance(it, ast.Name) and it.id in fresh and self._elements_fresh(it.id, binds)
                    else:
                        ok = ok and self._is_fresh_expr(v, fresh)
                if ok and vals:
                    fresh.add(name)
                    changed = True
        self.fresh = fresh
        # names only ever bound to numeric / string literals or arithmetic on them
        scal = set()
        for name, vals in binds.items():
            if vals and all(
                (not isinstance(v, tuple)) and v is not None and isinstance(v, (ast.Constant, ast.JoinedStr, ast.BinOp, ast.UnaryOp))
                for v in vals
            ):
                scal.add(name)
        self.scalars = scal

    def _elements_fresh(self, name, binds):
        for v in binds.get(name, []):
            if isinstance(v, ast.ListComp) and isinstance(v.elt, ast.Call):
                f = v.elt.func
                n = f.id if isinstance(f, ast.Name) else None
                if n and (n[:1].isupper() or (n.startswith("_") and n[1:2].isupper())):
                    continue
            return False
        return True

    def _root(self, e):
        while isinstance(e, (ast.Attribute, ast.Subscript, ast.Call)):
            e = e.value if not isinstance(e, ast.Call) else e.func
        return e

    def _receiver_fresh(self, target):
        """target is Attribute/Subscript: is the object written through fresh?"""
        obj = target.value
        if isinstance(obj, ast.Name):
            return obj.id in self.fresh
        return False

    def _site(self, node, kind):
        self.sites.append((node.lineno, kind, ast.unparse(node).split("\n")[0][:110]))

    def _store(self, target, node):
        if isinstance(target, (ast.Tuple, ast.List)):
            for t in target.elts:
                self._store(t, node)
            return
        if isinstance(target, ast.Attribute):
            if self.is_init and isinstance(target.value, ast.Name) and target.value.id == "self":
                return
            if self._receiver_fresh(target):
                return
            self._site(node, "attribute-store")
        elif isinstance(target, ast.Subscript):
            if self._receiver_fresh(target):
                return
            self._site(node, "subscript-store")

    def visit_Assign(self, node):
        for t in node.targets:
            self._store(t, node)
        self.generic_visit(node)

    def visit_AugAssign(self, node):
        if isinstance(node.target, (ast.Attribute, ast.Subscript)):
            self._store(node.target, node)
        elif isinstance(node.target, ast.Name) and node.target.id not in self.fresh and node.target.id not in self.scalars:
            # `x op= y` mutates x in place when x is an ndarray / list bound to a shared object
            self._site(node, "augmented-assignment")
        self.generic_visit(node)

    def visit_Delete(self, node):
        for t in node.targets:
            if isinstance(t, (ast.Attribute, ast.Subscript)) and not self._receiver_fresh(t):
                self._site(node, "delete")
        self.generic_visit(node)

    def visit_Call(self, node):
        # numpy-style in-place requests: out=..., copy=False, where= on a ufunc
        for kw in node.keywords:
            if kw.arg == "out" or (kw.arg == "copy" and isinstance(kw.value, ast.Constant) and kw.value.value is False):
                self._site(node, "in-place-keyword")
        fname = ast.unparse(node.func)
        if fname.split(".")[-1] in ("put", "place", "copyto", "putmask", "fill_diagonal", "shuffle", "setattr", "delattr"):
            self._site(node, "mutating-function")
        f = node.func
        if isinstance(f, ast.Attribute) and f.attr in MUTATING_METHODS:
            recv = f.value
            fresh = isinstance(recv, ast.Name) and recv.id in self.fresh
            if not fresh:
                self._site(node, "mutating-call")
        self.generic_visit(node)

    def visit_FunctionDef(self, node):
        if node is self.fn:
            self.generic_visit(node)
        # nested functions are analysed on their own

    visit_AsyncFunctionDef = visit_FunctionDef

    def visit_Global(self, node):
        self._site(node, "global")

    def visit_Nonlocal(self, node):
        self._site(node, "nonlocal")


NONDETERMINISM = {"time", "random", "uuid", "datetime.now", "os.environ", "id", "getenv", "urandom"}


def analyse_package(src_root):
    """-> dict qualname -> list of sites ; plus count of functions"""
    out = {}
    nfun = 0
    pkg = os.path.join(src_root, "cr", "cube")
    for dirpath, _, files in os.walk(pkg):
        for fn in sorted(files):
            if not fn.endswith(".py"):
                continue
            path = os.path.join(dirpath, fn)
            rel = os.path.relpath(path, pkg)[:-3].replace(os.sep, ".")
            tree = ast.parse(open(path).read(), filename=path)

            def walk(node, prefix):
                nonlocal nfun
                for ch in ast.iter_child_nodes(node):
                    if isinstance(ch, ast.ClassDef):
                        walk(ch, prefix + [ch.name])
                    elif isinstance(ch, (ast.FunctionDef, ast.AsyncFunctionDef)):
                        nfun += 1
                        q = "%s:%s" % (rel, ".".join(prefix + [ch.name]))
                        v = FunctionSites(ch, q)
                        v.visit(ch)
                        # nondeterminism sources
                        for n in ast.walk(ch):
                            if isinstance(n, ast.Call):
                                nm = ast.unparse(n.func)
                                if nm in ("id", "time.time", "random.random", "datetime.now", "os.getenv", "uuid.uuid4") or nm.startswith("random."):
                                    v.sites.append((n.lineno, "nondeterminism", nm))
                        if v.sites:
                            out[q] = v.sites
                        walk(ch, prefix + [ch.name])

            walk(tree, [])
    return out, nfun
