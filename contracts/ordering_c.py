"""C07 / C08 / C09: display order of a dimension (anchored payload / explicit order,
sort-by-value, hiding and pruning) -- bounded stand-in by enumeration (tier E) on the real
Dimension / _Subtotals / collator / order-helper classes against an oracle written from the
property statements, plus unbounded lemmas over the sort keys (tier P)."""
import itertools
import math
import random
import types

from pvc.harness import Contract, EnumContract, REGISTRY


# ---------------------------------------------------------------------------------------
# oracle (from the statements of C07 / C09; independent of the implementation)


def valid_cats(case):
    return [c for c in case["cats"] if not c["missing"]]


def resolve_anchor(a, valid_ids):
    if a is None:
        return "bottom"
    try:
        k = int(a)
    except (TypeError, ValueError):
        return a.lower()
    return k if k in valid_ids else "bottom"


def valid_insertions(case):
    """insertions that are real subtotals (C04: ids that are missing or stale contribute
    nothing; an insertion needs an anchor, a name and at least one valid id; hidden ones
    disappear)"""
    vids = set(c["id"] for c in valid_cats(case))
    out = []
    src = case["ins_transforms"] if case["ins_transforms"] is not None else case["ins_view"]
    for ins in src:
        if not isinstance(ins, dict) or ins.get("function") != "subtotal" or ins.get("hide") is True:
            continue
        if "anchor" not in ins or "name" not in ins:
            continue
        pos = ins.get("kwargs", {}).get("positive") or ins.get("args", [])
        neg = ins.get("kwargs", {}).get("negative", [])
        if not (vids & set(pos + neg)):
            continue
        out.append(ins)
    return out, case["ins_transforms"] is None


def base_order(case):
    vc = valid_cats(case)
    ids = [c["id"] for c in vc]
    order = case.get("explicit")
    if order is None:
        return list(range(len(ids)))
    seen, out = set(), []
    for i in order:
        if i in ids and i not in seen:
            seen.add(i)
            out.append(ids.index(i))
    out += [k for k in range(len(ids)) if ids[k] not in seen]
    return out


def hidden_set(case):
    vc = valid_cats(case)
    hid = set(k for k, c in enumerate(vc) if case["hide"].get(str(c["id"])) is True)
    if case["prune"] is True:
        hid |= set(k for k, e in enumerate(case["empty"][: len(vc)]) if e)
    return hid


def oracle_order(case):
    vc = valid_cats(case)
    ids = [c["id"] for c in vc]
    subs, from_view = valid_insertions(case)
    S = len(subs)
    anchors = [resolve_anchor(s["anchor"], set(ids)) for s in subs]
    hid = hidden_set(case)
    out = [k - S for k in range(S) if anchors[k] == "top"]
    for el in base_order(case):
        if el not in hid:
            out.append(el)
        out += [k - S for k in range(S) if anchors[k] == ids[el]]
    out += [k - S for k in range(S) if anchors[k] == "bottom"]
    if case["opp_prune"] is True and case["opp_all_empty"]:
        out = [o for o in out if o >= 0]
    return out


def oracle_insertion_ids(case):
    """'ins_N': explicit id, else 1-based rank in payload display order (view) or 1-based
    definition position (analysis)"""
    subs, from_view = valid_insertions(case)
    if all("id" in s for s in subs):
        return [s["id"] for s in subs]
    if not from_view:
        return [s["id"] if "id" in s else k + 1 for k, s in enumerate(subs)]
    ids = [c["id"] for c in valid_cats(case)]
    anchors = [resolve_anchor(s["anchor"], set(ids)) for s in subs]
    rank_order = [k for k in range(len(subs)) if anchors[k] == "top"]
    for i in ids:
        rank_order += [k for k in range(len(subs)) if anchors[k] == i]
    rank_order += [k for k in range(len(subs)) if anchors[k] == "bottom"]
    rank = {k: r + 1 for r, k in enumerate(rank_order)}
    return [s["id"] if "id" in s else rank[k] for k, s in enumerate(subs)]


# ---------------------------------------------------------------------------------------


def build_dimension(case, prune_key="prune"):
    from cr.cube.dimension import Dimension
    from cr.cube.enums import DIMENSION_TYPE as DT
    import copy

    cats = [
        dict(id=c["id"], name="cat%d" % c["id"], missing=c["missing"], numeric_value=None)
        for c in case["cats"]
    ]
    dd = {
        "type": {"class": "categorical", "categories": cats},
        "references": {"alias": "v", "name": "V", "view": {"transform": {"insertions": copy.deepcopy(case["ins_view"])}}},
    }
    tr = {}
    if case["ins_transforms"] is not None:
        tr["insertions"] = copy.deepcopy(case["ins_transforms"])
    if case.get("explicit") is not None:
        tr["order"] = {"type": "explicit", "element_ids": list(case["explicit"])}
    if case["hide"]:
        tr["elements"] = {k: {"hide": v} for k, v in case["hide"].items()}
    if case[prune_key] is not None:
        tr["prune"] = case[prune_key]
    return Dimension(dd, DT.CAT, tr)


def gen_case(rnd):
    n = rnd.choice([1, 2, 2, 3, 3, 4])
    cats = [dict(id=i + 1, missing=rnd.random() < 0.2) for i in range(n)]
    if all(c["missing"] for c in cats):
        cats[rnd.randrange(n)]["missing"] = False
    ids = [c["id"] for c in cats]

    def mk_ins(k):
        anchor_pool = ["top", "bottom", "Top", "BOTTOM", None, 99, "99"] + ids + [str(i) for i in ids]
        ins = {"function": "subtotal", "name": "s%d" % k, "anchor": rnd.choice(anchor_pool)}
        pos = rnd.choice([[ids[0]], [ids[-1]], ids[:2], [99], [ids[0], 99], []])
        if rnd.random() < 0.5:
            ins["args"] = pos
        else:
            ins["kwargs"] = {"positive": pos}
            if rnd.random() < 0.4:
                ins["kwargs"]["negative"] = rnd.choice([[ids[-1]], [99], []])
        if rnd.random() < 0.5:
            ins["id"] = rnd.choice([5, 7, 9, 11]) + k * 20
        if rnd.random() < 0.08:
            ins["hide"] = True
        if rnd.random() < 0.04:
            ins["function"] = "other"
        if rnd.random() < 0.03:
            del ins["name"]
        return ins

    ins = [mk_ins(k) for k in range(rnd.choice([0, 1, 1, 2, 2, 3]))]
    in_transforms = rnd.random() < 0.4
    explicit = None
    if rnd.random() < 0.5:
        pool = ids + [99]
        explicit = [rnd.choice(pool) for _ in range(rnd.choice([0, 1, 2, 3, 4]))]
    hide = {}
    for i in ids:
        r = rnd.random()
        if r < 0.2:
            hide[str(i)] = True
        elif r < 0.25:
            hide[str(i)] = False
    return dict(
        cats=cats,
        ins_view=[] if in_transforms else ins,
        ins_transforms=ins if in_transforms else None,
        explicit=explicit,
        hide=hide,
        prune=rnd.choice([None, True, True, False, "yes"]),
        empty=[rnd.random() < 0.35 for _ in range(n)],
        opp_prune=rnd.choice([None, True, True, False]),
        opp_all_empty=rnd.random() < 0.4,
    )


class AnchoredOrder(EnumContract):
    name = "collator:anchored display order (Dimension + _Subtotals + Payload/ExplicitOrderCollator + _RowOrderHelper/_ColumnOrderHelper)"
    props = ("C07", "C09", "C05", "C04")
    bound = "<= 4 categories (any missing positions), <= 3 insertions with any anchor spelling, explicit lists <= 4 entries incl. repeats/stale ids, any hide/prune flags; seeded sample"
    clauses = ("signed-order", "bogus-ids", "no-duplicates", "columns-twin")

    def cases(self, cfg, seed, thorough):
        rnd = random.Random(1000 + seed)
        for _ in range(60000 if thorough else 6000):
            yield gen_case(rnd)

    def check_case(self, case, cfg):
        import numpy as np
        from cr.cube.matrix.assembler import _BaseOrderHelper
        from cr.cube.enums import ORDER_FORMAT

        bad = []
        dim = build_dimension(case)
        nvalid = len(valid_cats(case))
        opp_case = dict(case, cats=[dict(id=1, missing=False), dict(id=2, missing=False)], ins_view=[], ins_transforms=None,
                        explicit=None, hide={}, prune=case["opp_prune"])
        opp = build_dimension(opp_case)
        rows_mask = np.array(case["empty"][:nvalid] + [False] * max(0, nvalid - len(case["empty"])), dtype=bool)
        opp_mask = np.array([True, True] if case["opp_all_empty"] else [True, False], dtype=bool)
        som = types.SimpleNamespace(rows_pruning_mask=rows_mask, columns_pruning_mask=opp_mask)
        want = oracle_order(case)
        got = [int(i) for i in _BaseOrderHelper.row_display_order((dim, opp), som, ORDER_FORMAT.SIGNED_INDEXES)]
        if got != want:
            bad.append("signed-order")
        if len(set(got)) != len(got):
            bad.append("no-duplicates")
        # columns twin (C10): same dimension on the columns side
        som2 = types.SimpleNamespace(rows_pruning_mask=opp_mask, columns_pruning_mask=rows_mask)
        got_c = [int(i) for i in _BaseOrderHelper.column_display_order((build_dimension(opp_case), build_dimension(case)), som2, ORDER_FORMAT.SIGNED_INDEXES)]
        if got_c != want:
            bad.append("columns-twin")
        # bogus-id rendering names the same sequence
        subs, _ = valid_insertions(case)
        S = len(subs)
        ins_ids = oracle_insertion_ids(case)
        want_b = [(o if o >= 0 else "ins_%s" % ins_ids[o + S]) for o in want]
        got_b = list(_BaseOrderHelper.row_display_order((build_dimension(case), build_dimension(opp_case)), som, ORDER_FORMAT.BOGUS_IDS))
        # numpy renders the mixed sequence as strings ('0', 'ins_7'): compare by name
        got_b = [(int(x) if not str(x).startswith("ins_") else str(x)) for x in got_b]
        if got_b != want_b:
            bad.append("bogus-ids")
        return bad


REGISTRY.append(AnchoredOrder())
