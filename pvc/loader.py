"""Load the *current* /repo/src/cr/cube sources into private module objects with the
mechanical rewrites of DESIGN 3.1.  Nothing is cached between runs: every check re-reads
the working tree.

Rewrites (complete list, also reported in evidence):
 R1  `import numpy as np`           -> np bound to the symbolic facade (pvc.symnp)
     `from scipy.stats import ...`  -> pvc.symstats
     `from tabulate import tabulate`-> stub
 R2  list/set/generator comprehensions -> __pvc_comp__(kind, iterable, lambda x: [...])
 R3  builtins shadowed in module globals: len range zip enumerate tuple list any all sorted
 R4  intra-package imports resolved against the privately loaded modules
"""
import ast
import os
import sys
import types

from . import shadow, symnp, symstats

REPO_SRC = os.environ.get("PVC_REPO_SRC", "/repo/src")
PKG = "cr.cube"

REWRITES = [
    "R1 numpy/scipy.stats/tabulate imports bound to pvc facades",
    "R2 list/set/generator comprehensions rewritten to __pvc_comp__ closure form",
    "R3 builtins len/range/zip/enumerate/tuple/list/any/all/sorted shadowed in module globals",
    "R4 intra-package imports resolved against privately loaded modules",
]


class _CompRewriter(ast.NodeTransformer):
    def __init__(self):
        self.n = 0

    def _rewrite(self, node, kind, elt):
        self.generic_visit(node)
        gens = node.generators
        if any(g.is_async for g in gens):
            return node
        # innermost first
        body = elt
        inner_kind_nested = False
        for depth in range(len(gens) - 1, -1, -1):
            g = gens[depth]
            self.n += 1
            var = "__pvc_x%d" % self.n
            one = ast.Tuple(elts=[ast.Name(id=var, ctx=ast.Load())], ctx=ast.Load())
            lc = ast.ListComp(
                elt=body,
                generators=[ast.comprehension(target=g.target, iter=one, ifs=g.ifs, is_async=0)],
            )
            lam = ast.Lambda(
                args=ast.arguments(
                    posonlyargs=[], args=[ast.arg(arg=var)], kwonlyargs=[], kw_defaults=[], defaults=[]
                ),
                body=lc,
            )
            k = kind if depth == 0 else "list"
            body = ast.Call(
                func=ast.Name(id="__pvc_comp__", ctx=ast.Load()),
                args=[ast.Constant(value=k), g.iter, lam, ast.Constant(value=inner_kind_nested)],
                keywords=[],
            )
            inner_kind_nested = True
        return ast.copy_location(body, node)

    def visit_ListComp(self, node):
        return self._rewrite(node, "list", node.elt)

    def visit_GeneratorExp(self, node):
        return self._rewrite(node, "gen", node.elt)

    def visit_SetComp(self, node):
        return self._rewrite(node, "set", node.elt)


class _ImportRewriter(ast.NodeTransformer):
    """module-level + nested import statements of the package / numpy / scipy / tabulate"""

    def __init__(self, modname):
        self.modname = modname

    def visit_Import(self, node):
        out = []
        for a in node.names:
            if a.name == "numpy":
                out.append(_assign(a.asname or "numpy", _name("__pvc_np__")))
            else:
                out.append(ast.Import(names=[a]))
        return [ast.copy_location(o, node) for o in out]

    def visit_ImportFrom(self, node):
        mod = node.module or ""
        if node.level:
            base = self.modname.rsplit(".", node.level)[0]
            mod = base + ("." + mod if mod else "")
        if mod == "scipy.stats":
            return [
                ast.copy_location(
                    _assign(a.asname or a.name, ast.Attribute(value=_name("__pvc_stats__"), attr=a.name, ctx=ast.Load())),
                    node,
                )
                for a in node.names
            ]
        if mod == "tabulate":
            return [ast.copy_location(_assign(a.asname or a.name, _name("__pvc_tabulate__")), node) for a in node.names]
        if mod == PKG or mod.startswith(PKG + "."):
            return [
                ast.copy_location(
                    _assign(
                        a.asname or a.name,
                        ast.Attribute(
                            value=ast.Call(func=_name("__pvc_mod__"), args=[ast.Constant(value=mod)], keywords=[]),
                            attr=a.name,
                            ctx=ast.Load(),
                        ),
                    ),
                    node,
                )
                for a in node.names
            ]
        return node


def _name(n):
    return ast.Name(id=n, ctx=ast.Load())


def _assign(target, value):
    return ast.Assign(targets=[ast.Name(id=target, ctx=ast.Store())], value=value)


class Repo:
    """Privately loaded copy of the package (symbolic facade bound)."""

    def __init__(self, src=None):
        self.src = src or REPO_SRC
        self.mods = {}
        self.np = symnp.facade()
        self.sources = {}

    def path_of(self, modname):
        rel = modname.replace(".", "/")
        p = os.path.join(self.src, rel + ".py")
        if os.path.exists(p):
            return p
        p = os.path.join(self.src, rel, "__init__.py")
        if os.path.exists(p):
            return p
        raise ImportError(modname)

    def mod(self, modname):
        m = self.mods.get(modname)
        if m is not None:
            return m
        path = self.path_of(modname)
        with open(path) as f:
            text = f.read()
        self.sources[modname] = (path, text)
        tree = ast.parse(text, filename=path)
        tree = _ImportRewriter(modname).visit(tree)
        tree = _CompRewriter().visit(tree)
        ast.fix_missing_locations(tree)
        code = compile(tree, path, "exec")
        m = types.ModuleType("pvc_repo." + modname)
        m.__file__ = path
        g = m.__dict__
        g["__pvc_np__"] = self.np
        g["__pvc_stats__"] = symstats
        g["__pvc_tabulate__"] = lambda *a, **k: "<table>"
        g["__pvc_mod__"] = self.mod
        g.update(shadow.SHADOWS)
        self.mods[modname] = m
        exec(code, g)
        return m

    def get(self, dotted):
        """'matrix.measure:_RowProportions' -> class object"""
        modpart, _, attr = dotted.partition(":")
        m = self.mod(PKG + "." + modpart)
        obj = m
        for a in attr.split("."):
            obj = getattr(obj, a)
        return obj
