"""Contracts for cr.cube.matrix.measure (second-order measures)."""
from pvc.harness import Contract, REGISTRY
from . import spec
from .common import SliceEnv
from .matrix_subtotals_c import check_blocks

MOD = "matrix.measure"


def blocks_stub(B, label, blocks, **extra):
    return B.stub(label, blocks=blocks, **extra)


class _BlocksContract(Contract):
    """`<cls>.blocks` of a measure built as cls(dimensions, second_order_measures, cube_measures)"""

    cls = None
    dates = False

    def __init__(self):
        self.name = "%s:%s.blocks" % (MOD, self.cls)

    def configs(self):
        out = []
        for c in SliceEnv.CAT_CONFIGS:
            if self.dates:
                for rd_ in ((False, True) if c["rc"] else (False,)):
                    for cd_ in ((False, True) if c["cc"] else (False,)):
                        out.append(dict(c, rd=rd_, cd=cd_))
            else:
                out.append(dict(c))
        return out

    def size_space(self, cfg):
        return SliceEnv.size_space(cfg["rc"], cfg["cc"])

    def env(self, B, cfg):
        return SliceEnv(B, cfg["rc"], cfg["cc"], cfg.get("rd", False), cfg.get("cd", False))

    def som(self, B, env):
        return B.stub("second_order_measures")

    def expected(self, B, env):
        raise NotImplementedError

    def run(self, B, cfg):
        env = self.env(B, cfg)
        obj = B.new("%s:%s" % (MOD, self.cls), env.dims, self.som(B, env), env.cube_measures)
        check_blocks(B, "blocks", obj.blocks, self.expected(B, env))

    def assumptions(self):
        return [
            "A-DIM: every dimension has at least one valid element (R >= 1, C >= 1)",
            "A-NOSUB-ARR: MR / CA-subvariable dimensions carry no subtotals (Dimension.subtotals contract)",
            "callee contracts assumed at the cut: _BaseCubeCounts interface (verified in matrix.cubemeasure contracts), _Subtotal.addend_idxs/subtrahend_idxs strictly increasing in-range index lists",
        ]


def _mk(cls_name, props, expected, som=None, dates=False):
    ns = dict(cls=cls_name, props=props, dates=dates, expected=lambda self, B, env: expected(B, env))
    if som is not None:
        ns["som"] = lambda self, B, env: som(B, env)
    k = type("C_" + cls_name, (_BlocksContract,), ns)
    REGISTRY.append(k())
    return k


# ---- counts ---------------------------------------------------------------------------
_mk("_WeightedCounts", ("C01", "C04", "C03"), lambda B, env: spec.count_blocks(B, env, env.w))
_mk("_UnweightedCounts", ("C01", "C04", "C02", "C09"), lambda B, env: spec.count_blocks(B, env, env.u))

# ---- bases ----------------------------------------------------------------------------
_mk("_RowWeightedBases", ("C02", "C04", "C03", "C11"), lambda B, env: spec.row_base_blocks(B, env, env.w))
_mk("_RowUnweightedBases", ("C02", "C04", "C03", "C11"), lambda B, env: spec.row_base_blocks(B, env, env.u))
_mk("_ColumnWeightedBases", ("C02", "C04", "C03", "C11"), lambda B, env: spec.column_base_blocks(B, env, env.w))
_mk("_ColumnUnweightedBases", ("C02", "C04", "C03", "C11"), lambda B, env: spec.column_base_blocks(B, env, env.u))
_mk("_TableWeightedBases", ("C02", "C04", "C03", "C11"), lambda B, env: spec.table_base_blocks(B, env, env.w))
_mk("_TableUnweightedBases", ("C02", "C04", "C03", "C11"), lambda B, env: spec.table_base_blocks(B, env, env.u))


# ---- proportions ----------------------------------------------------------------------
def _som_props(direction):
    def som(B, env):
        bases = {
            "row": ("row_weighted_bases", spec.row_base_blocks),
            "column": ("column_weighted_bases", spec.column_base_blocks),
            "table": ("table_weighted_bases", spec.table_base_blocks),
        }[direction]
        return B.stub(
            "second_order_measures",
            weighted_counts=blocks_stub(B, "weighted_counts", spec.count_blocks(B, env, env.w)),
            **{bases[0]: blocks_stub(B, bases[0], bases[1](B, env, env.w))},
        )

    return som


_mk("_RowProportions", ("C03", "C04", "C11", "C13", "C17", "C20"), lambda B, env: spec.proportion_blocks(B, env, env.w, "row"),
    som=_som_props("row"), dates=True)
_mk("_ColumnProportions", ("C03", "C04", "C11", "C13", "C17", "C20"), lambda B, env: spec.proportion_blocks(B, env, env.w, "column"),
    som=_som_props("column"), dates=True)
_mk("_TableProportions", ("C03", "C04", "C11", "C13", "C17", "C20"), lambda B, env: spec.proportion_blocks(B, env, env.w, "table"),
    som=_som_props("table"))


# ---- C11 variances / standard errors --------------------------------------------------
_BASES = {
    "row": ("row_weighted_bases", spec.row_base_blocks, "row_proportions", "row_proportion_variances"),
    "column": ("column_weighted_bases", spec.column_base_blocks, "column_proportions", "column_proportion_variances"),
    "table": ("table_weighted_bases", spec.table_base_blocks, "table_proportions", "table_proportion_variances"),
}


class _VarianceContract(_BlocksContract):
    cls = "_ProportionVariances"
    props = ("C11", "C04")
    direction = None

    def __init__(self):
        self.name = "%s:_ProportionVariances.blocks<%s>" % (MOD, self.direction)

    def run(self, B, cfg):
        env = self.env(B, cfg)
        p = spec.proportion_blocks(B, env, env.w, self.direction)
        nt = _BASES[self.direction][1](B, env, env.w)
        obj = B.new(
            "%s:_ProportionVariances" % MOD, env.dims, B.stub("second_order_measures"), env.cube_measures, p, nt
        )
        check_blocks(B, "blocks", obj.blocks, spec.variance_blocks(B, env, env.w, self.direction))
        # non-negativity (statement): wherever defined
        for a in (0, 1):
            for b in (0, 1):
                blk = obj.blocks[a][b]
                B.all_cells(
                    "nonneg[%d][%d]" % (a, b), blk.shape,
                    lambda x, y, blk=blk: B.bor(B.isnan(B.rd(blk, x, y)), B.fle(0, B.rd(blk, x, y))),
                )


for _d in ("row", "column", "table"):
    REGISTRY.append(type("C_Var_" + _d, (_VarianceContract,), dict(direction=_d, dates=False))())


def _som_stderr(direction):
    def som(B, env):
        bname, bspec, pname, vname = _BASES[direction]
        return B.stub(
            "second_order_measures",
            **{
                vname: blocks_stub(B, vname, spec.variance_blocks(B, env, env.w, direction)),
                bname: blocks_stub(B, bname, bspec(B, env, env.w)),
            }
        )

    return som


_mk("_RowStandardError", ("C11",), lambda B, env: spec.stderr_blocks(B, env, env.w, "row"), som=_som_stderr("row"))
_mk("_ColumnStandardError", ("C11",), lambda B, env: spec.stderr_blocks(B, env, env.w, "column"), som=_som_stderr("column"))
_mk("_TableStandardError", ("C11",), lambda B, env: spec.stderr_blocks(B, env, env.w, "table"), som=_som_stderr("table"))


# ---- C03: range, NaN-iff-zero-base, sums to one ----------------------------------------
class _ProportionLaws(_BlocksContract):
    """laws of the proportion blocks stated by C03, proved over the block contracts"""

    props = ("C03",)
    direction = None
    cls = None

    def __init__(self):
        self.name = "%s:%s.blocks<laws>" % (MOD, self.cls)

    def run(self, B, cfg):
        env = self.env(B, cfg)
        d = self.direction
        som = _som_props(d)(B, env)
        obj = B.new("%s:%s" % (MOD, self.cls), env.dims, som, env.cube_measures)
        blocks = obj.blocks
        cnt_b = spec.count_blocks(B, env, env.w)
        base_b = _BASES[d][1](B, env, env.w)
        rows, cols = env.rows, env.cols
        for a in (0, 1):
            for b in (0, 1):
                blk, cb, bb = blocks[a][b], cnt_b[a][b], base_b[a][b]

                def is_difference(x, y, a=a, b=b):
                    return B.bor(
                        rows.is_diff(x) if a == 1 else False, cols.is_diff(y) if b == 1 else False
                    )

                B.all_cells(
                    "in[0,1][%d][%d]" % (a, b), blk.shape,
                    lambda x, y, blk=blk, isd=is_difference: B.bor(
                        isd(x, y),
                        B.isnan(B.rd(blk, x, y)),
                        B.band(B.fle(0, B.rd(blk, x, y)), B.fle(B.rd(blk, x, y), 1)),
                    ),
                )
                # NaN exactly where the base is zero (for non-difference cells; a zero base
                # forces a zero count, so the undefined quotient is 0/0 = NaN, never Inf)
                B.all_cells(
                    "nan-iff-zero-base[%d][%d]" % (a, b), blk.shape,
                    lambda x, y, blk=blk, bb=bb, cb=cb, isd=is_difference: B.bor(
                        isd(x, y),
                        B.band(
                            B.isnan(B.rd(blk, x, y)) == (B.rd(bb, x, y) == 0),
                            B.bor(B.rd(bb, x, y) != 0, B.rd(cb, x, y) == 0),
                        ),
                    ),
                )
        base = blocks[0][0]
        R, C = env.R, env.C
        if d == "row" and cfg["cc"]:
            B.all_cells(
                "row-sums-to-1", (R,),
                lambda i: B.bor(
                    B.rd(env.w.rows_base, i) == 0, B.feq(B.Sum(C, lambda j: B.rd(base, i, j)), 1)
                ),
            )
        if d == "column" and cfg["rc"]:
            B.all_cells(
                "column-sums-to-1", (C,),
                lambda j: B.bor(
                    B.rd(env.w.columns_base, j) == 0, B.feq(B.Sum(R, lambda i: B.rd(base, i, j)), 1)
                ),
            )
        if d == "table" and cfg["rc"] and cfg["cc"]:
            B.check(
                "table-sums-to-1",
                B.bor(
                    env.w.table_base == 0,
                    B.feq(B.Sum(R, lambda i: B.Sum(C, lambda j: B.rd(base, i, j))), 1),
                ),
            )


for _cls, _d in (("_RowProportions", "row"), ("_ColumnProportions", "column"), ("_TableProportions", "table")):
    REGISTRY.append(type("C_Laws_" + _d, (_ProportionLaws,), dict(cls=_cls, direction=_d, dates=False))())


# ---- C12 residual z-scores and p-values -----------------------------------------------
def _som_z(B, env):
    return B.stub(
        "second_order_measures",
        weighted_counts=blocks_stub(B, "weighted_counts", spec.count_blocks(B, env, env.w)),
        table_weighted_bases=blocks_stub(B, "table_weighted_bases", spec.table_base_blocks(B, env, env.w)),
        row_weighted_bases=blocks_stub(B, "row_weighted_bases", spec.row_base_blocks(B, env, env.w)),
        column_weighted_bases=blocks_stub(B, "column_weighted_bases", spec.column_base_blocks(B, env, env.w)),
    )


class ZscoresBlocks(_BlocksContract):
    cls = "_Zscores"
    props = ("C12", "C04")

    # each block is verified in its own run (the two np.all guards of every block would
    # otherwise multiply into 3^4 paths); `blocks` itself only collects the four
    BLOCK_ATTR = {"00": "_base_values", "01": "_subtotal_columns", "10": "_subtotal_rows", "11": "_intersections"}

    def configs(self):
        return [dict(c, blk=b) for c in _BlocksContract.configs(self) for b in ("00", "01", "10", "11", "all")]

    def run(self, B, cfg):
        env = self.env(B, cfg)
        obj = B.new("%s:_Zscores" % MOD, env.dims, _som_z(B, env), env.cube_measures)
        # "at least two linearly independent rows and columns": rank of the base counts
        defective = B.rank(env.w.counts) < 2
        expected = spec.zscore_blocks(B, env, env.w, defective)
        if cfg["blk"] == "all":
            # wiring of .blocks: the four lazyproperties in the right places
            s00, s01, s10, s11 = object(), object(), object(), object()
            obj.__dict__.update(_base_values=s00, _subtotal_columns=s01, _subtotal_rows=s10, _intersections=s11)
            blocks = obj.blocks
            B.check("blocks-wiring", blocks[0][0] is s00 and blocks[0][1] is s01 and blocks[1][0] is s10 and blocks[1][1] is s11)
            return
        a, b = int(cfg["blk"][0]), int(cfg["blk"][1])
        B.eq_tensor("blocks[%d][%d]" % (a, b), getattr(obj, self.BLOCK_ATTR[cfg["blk"]]), expected[a][b])

    def assumptions(self):
        return _BlocksContract.assumptions(self) + [
            "A-NP matrix_rank: rank < 2 <=> all 2x2 minors vanish (exact arithmetic; numpy's tolerance not modelled)",
        ]


REGISTRY.append(ZscoresBlocks())


class PvaluesBlocks(_BlocksContract):
    cls = "_Pvalues"
    props = ("C12",)

    def run(self, B, cfg):
        env = self.env(B, cfg)
        defective = B.flag("defective")
        z = spec.zscore_blocks(B, env, env.w, defective)
        som = B.stub("second_order_measures", zscores=blocks_stub(B, "zscores", z))
        obj = B.new("%s:_Pvalues" % MOD, env.dims, som, env.cube_measures)
        blocks = obj.blocks
        check_blocks(B, "blocks", blocks, spec.pvalue_blocks(B, env, z))
        for a in (0, 1):
            for b in (0, 1):
                blk = blocks[a][b]
                B.all_cells(
                    "p-in[0,1][%d][%d]" % (a, b), blk.shape,
                    lambda x, y, blk=blk: B.bor(
                        B.isnan(B.rd(blk, x, y)), B.band(B.fle(0, B.rd(blk, x, y)), B.fle(B.rd(blk, x, y), 1))
                    ),
                )

    def assumptions(self):
        return _BlocksContract.assumptions(self) + ["A-CDF: norm.cdf in [0,1], >= 1/2 on [0, inf), NaN-propagating"]


REGISTRY.append(PvaluesBlocks())


class Chi2Lemma(Contract):
    """C12: for a 2x2 CAT x CAT table with positive expected counts z^2 == Pearson chi-square
    (lemma over the z-score spec; no code involved)"""

    name = MOD + ":lemma.z2-equals-chi2-2x2"
    props = ("C12",)

    def run(self, B, cfg):
        n = [[B.real("n%d%d" % (i, j), nonneg=True) for j in (0, 1)] for i in (0, 1)]
        r = [n[i][0] + n[i][1] for i in (0, 1)]
        c = [n[0][j] + n[1][j] for j in (0, 1)]
        N = r[0] + r[1]
        pos = B.band(r[0] > 0, r[1] > 0, c[0] > 0, c[1] > 0)
        chi2 = 0
        for i in (0, 1):
            for j in (0, 1):
                e = r[i] * c[j] / N
                chi2 = chi2 + (n[i][j] - e) * (n[i][j] - e) / e
        for i in (0, 1):
            for j in (0, 1):
                e = r[i] * c[j] / N
                # z^2 = (n-e)^2 / (e (1-r/N)(1-c/N))
                z2 = (n[i][j] - e) * (n[i][j] - e) / (e * (1 - r[i] / N) * (1 - c[j] / N))
                B.check("z2==chi2[%d][%d]" % (i, j), B.bor(B.bnot(pos), B.feq(z2, chi2)))


REGISTRY.append(Chi2Lemma())


# ---- C15 share of sum -----------------------------------------------------------------
class _ShareSum(Contract):
    props = ("C15", "C04", "C10")
    cls = None
    direction = None

    def __init__(self):
        self.name = "%s:%s.blocks" % (MOD, self.cls)

    def size_space(self, cfg):
        return SliceEnv.size_space(True, True)

    def run(self, B, cfg):
        from .common import mk_dim

        R, C = B.size("R", lo=1), B.size("C", lo=1)
        S = B.tensor("sums", (R, C), maybe_nan=True)
        rdim, rows = mk_dim(B, "rows", R)
        cdim, cols = mk_dim(B, "cols", C)

        class Env:
            pass

        env = Env()
        env.R, env.C, env.rows, env.cols = R, C, rows, cols
        cm = B.stub("cube_measures", cube_sum=B.stub("cube_sum", sums=S))
        obj = B.new("%s:%s" % (MOD, self.cls), (rdim, cdim), B.stub("second_order_measures"), cm)
        check_blocks(B, "blocks", obj.blocks, spec.share_sum_blocks(B, env, S, self.direction))


for _cls, _d in (("_RowShareSum", "row"), ("_ColumnShareSum", "column"), ("_TotalShareSum", "total")):
    REGISTRY.append(type("C_Share_" + _d, (_ShareSum,), dict(cls=_cls, direction=_d))())

_mk("_Sums", ("C15", "C04"), None)
REGISTRY.pop()  # placeholder removed below (sums has its own state)


class SumsBlocks(_ShareSum):
    cls = "_Sums"
    direction = None

    def run(self, B, cfg):
        from .common import mk_dim

        R, C = B.size("R", lo=1), B.size("C", lo=1)
        S = B.tensor("sums", (R, C), maybe_nan=True)
        rdim, rows = mk_dim(B, "rows", R)
        cdim, cols = mk_dim(B, "cols", C)

        class Env:
            pass

        env = Env()
        env.R, env.C, env.rows, env.cols = R, C, rows, cols
        cm = B.stub("cube_measures", cube_sum=B.stub("cube_sum", sums=S))
        obj = B.new("%s:_Sums" % MOD, (rdim, cdim), B.stub("second_order_measures"), cm)
        check_blocks(B, "blocks", obj.blocks, spec.sum_measure_blocks(B, env, S))


REGISTRY.append(SumsBlocks())


# ---- C16 column index ------------------------------------------------------------------
class ColumnIndexBlocks(_BlocksContract):
    cls = "_ColumnIndex"
    props = ("C16", "C04")

    def configs(self):
        # baseline is (R, 1) when the columns dimension is not MR and (R, C) when it is
        return [dict(c, wide=w) for c in _BlocksContract.configs(self) for w in (False, True)]

    def run(self, B, cfg):
        env = self.env(B, cfg)
        R, C = env.R, env.C
        base = B.tensor("baseline", (R, C if cfg["wide"] else 1), nonneg=True, maybe_nan=True)
        cm = B.stub(
            "cube_measures",
            weighted_cube_counts=env.w.stub,
            unweighted_cube_counts=env.u.stub,
            unconditional_cube_counts=B.stub("unconditional_cube_counts", baseline=base),
        )
        som = B.stub(
            "second_order_measures",
            weighted_counts=blocks_stub(B, "weighted_counts", spec.count_blocks(B, env, env.w)),
            column_weighted_bases=blocks_stub(B, "column_weighted_bases", spec.column_base_blocks(B, env, env.w)),
        )
        obj = B.new("%s:_ColumnIndex" % MOD, env.dims, som, cm)
        rd = B.rd

        def idx(i, j):
            share = rd(base, i, j if cfg["wide"] else 0)
            return 100 * ((rd(env.w.counts, i, j) / rd(env.w.column_bases, i, j)) / share)

        expected = spec.blocks_from(
            B, env, idx, lambda i, t: B.NaN(), lambda s, j: B.NaN(), lambda s, t: B.NaN()
        )
        check_blocks(B, "blocks", obj.blocks, expected)


REGISTRY.append(ColumnIndexBlocks())


# ---- C17 population proportion / std-err selection --------------------------------------
class PopulationSelection(Contract):
    """the population proportion is the proportion *within each date* when a dimension is
    categorical-date (rows first), else the table proportion; likewise the std error"""

    name = MOD + ":_PopulationProportions/_PopulationStandardError.blocks"
    props = ("C17",)

    def run(self, B, cfg):
        DT = B.enum("enums:DIMENSION_TYPE")
        types = [getattr(DT, n) for n in ("BINNED_NUMERIC", "CAT", "CAT_DATE", "CA_CAT", "CA_SUBVAR",
                                           "DATETIME", "LOGICAL", "MR_SUBVAR", "NUM_ARRAY", "TEXT")]
        for cls, names in (
            ("_PopulationProportions", ("row_proportions", "column_proportions", "table_proportions")),
            ("_PopulationStandardError", ("row_std_err", "column_std_err", "table_std_err")),
        ):
            sent = {n: object() for n in names}
            som = B.stub("second_order_measures", **{n: B.stub(n, blocks=sent[n]) for n in names})
            for rt in types:
                for ct in types:
                    dims = (B.stub("rows", dimension_type=rt), B.stub("cols", dimension_type=ct))
                    obj = B.new("%s:%s" % (MOD, cls), dims, som, B.stub("cube_measures"))
                    want = names[0] if rt == DT.CAT_DATE else (names[1] if ct == DT.CAT_DATE else names[2])
                    B.check("%s:%s_x_%s" % (cls, rt.name, ct.name), obj.blocks is sent[want])


REGISTRY.append(PopulationSelection())


# ---- wiring of the measure collection ----------------------------------------------------
class SecondOrderMeasuresWiring(Contract):
    """every property of SecondOrderMeasures builds the measure object it is named after,
    bound to this slice's dimensions / cube measures, in the right orientation and with the
    right (weighted / unweighted) cube counts.  The table below is written from the names."""

    name = MOD + ":SecondOrderMeasures.<wiring>"
    props = ("C01", "C02", "C03", "C04", "C05", "C10", "C11", "C12", "C13", "C14", "C15", "C16", "C17", "C20")

    SIMPLE = {
        "column_comparable_counts": "_ColumnComparableCounts", "column_index": "_ColumnIndex",
        "column_proportions": "_ColumnProportions", "column_share_sum": "_ColumnShareSum",
        "column_std_err": "_ColumnStandardError", "column_unweighted_bases": "_ColumnUnweightedBases",
        "column_squared_bases": "_ColumnSquaredBases", "column_weighted_bases": "_ColumnWeightedBases",
        "means": "_Means", "medians": "_Medians", "population_proportions": "_PopulationProportions",
        "population_std_err": "_PopulationStandardError", "pvalues": "_Pvalues",
        "row_comparable_counts": "_RowComparableCounts", "row_proportions": "_RowProportions",
        "row_share_sum": "_RowShareSum", "row_std_err": "_RowStandardError",
        "row_unweighted_bases": "_RowUnweightedBases", "row_weighted_bases": "_RowWeightedBases",
        "smoothed_column_index": "_ColumnIndexSmoothed", "smoothed_column_proportions": "_ColumnProportionsSmoothed",
        "smoothed_means": "_MeansSmoothed", "sums": "_Sums", "stddev": "_StdDev",
        "table_proportions": "_TableProportions", "table_std_err": "_TableStandardError",
        "table_unweighted_bases": "_TableUnweightedBases", "table_weighted_bases": "_TableWeightedBases",
        "total_share_sum": "_TotalShareSum", "unweighted_counts": "_UnweightedCounts",
        "weighted_counts": "_WeightedCounts", "zscores": "_Zscores",
    }
    ORIENTED = {
        "columns_table_proportion": ("_MarginTableProportion", "COLUMNS"), "rows_table_proportion": ("_MarginTableProportion", "ROWS"),
        "columns_scale_mean": ("_ScaleMean", "COLUMNS"), "rows_scale_mean": ("_ScaleMean", "ROWS"),
        "columns_scale_mean_stddev": ("_ScaleMeanStddev", "COLUMNS"), "rows_scale_mean_stddev": ("_ScaleMeanStddev", "ROWS"),
        "columns_scale_mean_stderr": ("_ScaleMeanStderr", "COLUMNS"), "rows_scale_mean_stderr": ("_ScaleMeanStderr", "ROWS"),
        "columns_scale_median": ("_ScaleMedian", "COLUMNS"), "rows_scale_median": ("_ScaleMedian", "ROWS"),
        "columns_unweighted_base": ("_MarginUnweightedBase", "COLUMNS"), "rows_unweighted_base": ("_MarginUnweightedBase", "ROWS"),
        "columns_squared_base": ("_MarginSquaredBase", "COLUMNS"),
        "columns_weighted_base": ("_MarginWeightedBase", "COLUMNS"), "rows_weighted_base": ("_MarginWeightedBase", "ROWS"),
        "smoothed_columns_scale_mean": ("_ScaleMeanSmoothed", "COLUMNS"),
    }
    WITH_COUNTS = {
        "columns_table_unweighted_base": ("_MarginTableBase", "COLUMNS", "u"), "columns_table_weighted_base": ("_MarginTableBase", "COLUMNS", "w"),
        "rows_table_unweighted_base": ("_MarginTableBase", "ROWS", "u"), "rows_table_weighted_base": ("_MarginTableBase", "ROWS", "w"),
        "table_unweighted_base": ("_TableBase", None, "u"), "table_weighted_base": ("_TableBase", None, "w"),
        "table_unweighted_bases_range": ("_TableBasesRange", None, "u"), "table_weighted_bases_range": ("_TableBasesRange", None, "w"),
    }
    VARIANCES = {
        "column_proportion_variances": ("column_proportions", "column_weighted_bases"),
        "row_proportion_variances": ("row_proportions", "row_weighted_bases"),
        "table_proportion_variances": ("table_proportions", "table_weighted_bases"),
    }
    SELECTED = {
        "pairwise_p_vals": "_PairwiseSigPvals", "pairwise_t_stats": "_PairwiseSigTstats",
        "pairwise_p_vals_for_subvar": "_PairwiseSigPValsForSubvar", "pairwise_t_stats_for_subvar": "_PairwiseSigTStatsForSubvar",
        "pairwise_significance_means_p_vals": "_PairwiseMeansSigPVals", "pairwise_significance_means_t_stats": "_PairwiseMeansSigTStats",
    }

    def run(self, B, cfg):
        MO = B.enum("enums:MARGINAL_ORIENTATION")
        cube, dims, k = B.stub("cube"), (B.stub("rows"), B.stub("cols")), 3

        def fresh():
            som = B.new(MOD + ":SecondOrderMeasures", cube, dims, k)
            u, w = object(), object()
            cm = B.stub("cube_measures", unweighted_cube_counts=u, weighted_cube_counts=w)
            B.cut(som, "_cube_measures", cm)
            return som, cm, u, w

        def base_ok(o, som, cm, cls):
            return type(o).__name__ == cls and o._dimensions is dims and o._second_order_measures is som and o._cube_measures is cm

        for prop, cls in sorted(self.SIMPLE.items()):
            som, cm, u, w = fresh()
            B.check("simple:" + prop, base_ok(getattr(som, prop), som, cm, cls))
        for prop, (cls, orient) in sorted(self.ORIENTED.items()):
            som, cm, u, w = fresh()
            o = getattr(som, prop)
            B.check("oriented:" + prop, base_ok(o, som, cm, cls) and o._orientation is getattr(MO, orient))
        for prop, (cls, orient, which) in sorted(self.WITH_COUNTS.items()):
            som, cm, u, w = fresh()
            o = getattr(som, prop)
            ok = base_ok(o, som, cm, cls) and o._cube_counts is (u if which == "u" else w)
            if orient:
                ok = ok and o._orientation is getattr(MO, orient)
            B.check("with-counts:" + prop, ok)
        for prop, (pname, bname) in sorted(self.VARIANCES.items()):
            som, cm, u, w = fresh()
            pb, bb = object(), object()
            B.cut(som, pname, B.stub(pname, blocks=pb))
            B.cut(som, bname, B.stub(bname, blocks=bb))
            o = getattr(som, prop)
            B.check("variances:" + prop, base_ok(o, som, cm, "_ProportionVariances") and o._proportions is pb and o._count_total is bb)
        for meth, cls in sorted(self.SELECTED.items()):
            som, cm, u, w = fresh()
            o = getattr(som, meth)(7)
            sel = getattr(o, "_selected_column_idx", getattr(o, "_selected_subvar_idx", None))
            B.check("selected:" + meth, base_ok(o, som, cm, cls) and sel == 7)
        som, cm, u, w = fresh()
        pm_u, pm_c = object(), object()
        cm2 = B.stub("cube_measures", unweighted_cube_counts=B.stub("ucc", rows_pruning_mask=pm_u, columns_pruning_mask=pm_c),
                     weighted_cube_counts=B.stub("wcc"))
        B.cut(som, "_cube_measures", cm2)
        B.check("pruning-masks-from-unweighted-counts", som.rows_pruning_mask is pm_u and som.columns_pruning_mask is pm_c)
        som2 = B.new(MOD + ":SecondOrderMeasures", cube, dims, k)
        cmr = som2._cube_measures
        B.check("_cube_measures", type(cmr).__name__ == "CubeMeasures" and cmr._cube is cube and cmr._dimensions is dims and cmr._slice_idx == k)


REGISTRY.append(SecondOrderMeasuresWiring())


# ---- C14 scale mean / standard deviation / standard error --------------------------------
class _ScaleContract(Contract):
    props = ("C14", "C04")
    cls = None
    what = None

    def __init__(self):
        self.name = "%s:%s.blocks" % (MOD, self.cls)

    def configs(self):
        return [dict(o=o) for o in ("rows", "columns")]

    def size_space(self, cfg):
        return SliceEnv.size_space(True, True)

    def som(self, B, env, values, cfg):
        bname, bspec = ("row_weighted_bases", spec.row_base_blocks) if cfg["o"] == "rows" else ("column_weighted_bases", spec.column_base_blocks)
        return dict(
            weighted_counts=blocks_stub(B, "weighted_counts", spec.count_blocks(B, env, env.w)),
            **{bname: blocks_stub(B, bname, bspec(B, env, env.w))},
        )

    def run(self, B, cfg):
        MO = B.enum("enums:MARGINAL_ORIENTATION")
        env = SliceEnv(B, True, True)
        n_opp = env.C if cfg["o"] == "rows" else env.R
        values = B.tensor("numeric_values", (n_opp,), maybe_nan=True)
        vseq = B.seq(n_opp, lambda k: B.rd(values, k), "numeric_values")
        if hasattr(vseq, "elem_kind"):
            pass
        opp = 1 if cfg["o"] == "rows" else 0
        dims = list(env.dims)
        dims[opp] = B.stub(
            "opposing_dimension", subtotals=(env.cols if opp == 1 else env.rows).seq,
            dimension_type=(env.cdim if opp == 1 else env.rdim).dimension_type, numeric_values=vseq,
        )
        som = B.stub("second_order_measures", **self.som(B, env, values, cfg))
        obj = B.new("%s:%s" % (MOD, self.cls), tuple(dims), som, env.cube_measures, MO.ROWS if cfg["o"] == "rows" else MO.COLUMNS)
        try:
            blocks = obj.blocks
        except ValueError:
            # undefined exactly when no category carries a numeric value
            all_nan = B.band(*[True]) if False else None
            B.check("undefined-only-without-numeric-values", self._all_nan(B, values, n_opp))
            return
        B.check("defined-only-with-numeric-values", B.bnot(self._all_nan(B, values, n_opp)))
        exp = self.expected(B, env, values, cfg)
        B.check("two-blocks", len(blocks) == 2)
        B.eq_tensor("blocks[0]", blocks[0], exp[0])
        B.eq_tensor("blocks[1]", blocks[1], exp[1])

    def _all_nan(self, B, values, n):
        """no k in range with a numeric value (as a closed formula over one witness)"""
        import z3
        from pvc import core

        if B.mode == "C":
            return all(B.isnan(B.rd(values, k)) for k in range(int(n)))
        if isinstance(core.raw(n), int):
            return B.band(*[B.isnan(B.rd(values, k)) for k in range(core.raw(n))])
        k = z3.Int(B.c.fresh("wit"))
        body = core.raw(core.lift_bool(B.isnan(B.rd(values, core.SInt(k)))))
        return core.sbool(z3.ForAll([k], z3.Implies(z3.And(k >= 0, k < core.zi(n)), core.zb(body))))

    def expected(self, B, env, values, cfg):
        return spec.scale_blocks(B, env, env.w, values, cfg["o"], self.what)


class ScaleMeanBlocks(_ScaleContract):
    cls = "_ScaleMean"
    what = "mean"


REGISTRY.append(ScaleMeanBlocks())


class ScaleMeanStddevBlocks(_ScaleContract):
    cls = "_ScaleMeanStddev"
    what = "sd"
    # the subtotal-vector obligation (NaN-skipping sums of squared deviations under a square
    # root) is beyond the solver with symbolic sizes: bounded stand-in (concrete sizes,
    # symbolic contents); the respondent-level oracle of e2e_c.ScaleStats covers it end to end
    tier = "B"

    def size_space(self, cfg):
        # the opposing (valued) dimension is bounded by 2 categories: with 3 the subtotal-vector
        # obligations (square roots of NaN-skipping sums) are left `unknown` by the solver
        rr, cc_ = ([1, 2, 3], [1, 2]) if cfg["o"] == "rows" else ([1, 2], [1, 2, 3])
        return {"R": rr, "C": cc_, "rows.S": [0, 1, 2], "cols.S": [0, 1, 2],
                "rows.add.n[0]": [1], "rows.sub.n[0]": [0], "rows.add.n[1]": [1], "rows.sub.n[1]": [0],
                "cols.add.n[0]": [1], "cols.sub.n[0]": [0], "cols.add.n[1]": [1], "cols.sub.n[1]": [0]}

    def som(self, B, env, values, cfg):
        ccname = "column_comparable_counts" if cfg["o"] == "rows" else "row_comparable_counts"
        cnt = spec.count_blocks(B, env, env.w)
        # comparable counts: differences in the *other* direction are NaN (callee contract)
        smname = "rows_scale_mean" if cfg["o"] == "rows" else "columns_scale_mean"
        # modular cut: the scale means are whatever _ScaleMean delivers (its own contract
        # states they are the respondent-level means); here they are opaque vectors
        n0 = env.R if cfg["o"] == "rows" else env.C
        n1 = env.rows.S if cfg["o"] == "rows" else env.cols.S
        # (a NaN mean only occurs for a vector without valued respondents, where the deviation
        # is NaN whatever the mean is: finite opaque means lose nothing)
        self._means = [B.tensor("scale_mean0", (n0,)), B.tensor("scale_mean1", (n1,))]
        # the comparable counts are opaque as well (their own contract: _Row/_ColumnComparableCounts)
        R, C = env.R, env.C
        # (a difference vector arrives as an all-NaN vector: contract of the comparable counts)
        if cfg["o"] == "rows":
            val, dflag = B.tensor("cc10", (env.rows.S, C)), B.tensor("isdiff", (env.rows.S,), integer=True)
            sub = B.spec_tensor((env.rows.S, C), lambda s_, j: B.ite(B.rd(dflag, s_) == 1, B.NaN(), B.rd(val, s_, j)))
            self._cnt = [B.tensor("cc00", (R, C), nonneg=True), sub]
            blocks = [[self._cnt[0], None], [self._cnt[1], None]]
        else:
            val, dflag = B.tensor("cc01", (R, env.cols.S)), B.tensor("isdiff", (env.cols.S,), integer=True)
            sub = B.spec_tensor((R, env.cols.S), lambda i, t: B.ite(B.rd(dflag, t) == 1, B.NaN(), B.rd(val, i, t)))
            self._cnt = [B.tensor("cc00", (R, C), nonneg=True), sub]
            blocks = [[self._cnt[0], self._cnt[1]], [None, None]]
        return {
            ccname: blocks_stub(B, ccname, blocks),
            smname: blocks_stub(B, smname, self._means),
        }

    def expected(self, B, env, values, cfg):
        return spec.scale_blocks(B, env, env.w, values, cfg["o"], "sd", means=self._means, counts=self._cnt)

    def _comparable(self, B, env, cfg):
        from .matrix_subtotals_c import sum_blocks_spec

        if cfg["o"] == "rows":
            return sum_blocks_spec(B, env.w.counts, env.R, env.C, env.rows, env.cols, False, True)
        return sum_blocks_spec(B, env.w.counts, env.R, env.C, env.rows, env.cols, True, False)


REGISTRY.append(ScaleMeanStddevBlocks())


# ---- C11 on categorical-date dimensions: NaN wherever the proportion is undefined -----------
class _VarianceDates(_VarianceContract):
    """same contract with categorical-date dimensions: the variance must be NaN wherever the
    proportion is NaN (multi-term wave differences); the one-minus-one wave-difference cells,
    whose 'proportion' is a difference of two percentages with different bases, are left
    unspecified (the indicator reading of the statement does not apply to them: F10)."""

    dates = True

    def __init__(self):
        self.name = "%s:_ProportionVariances.blocks<%s,dates>" % (MOD, self.direction)

    def configs(self):
        return [c for c in _BlocksContract.configs(self) if c.get("rd") or c.get("cd")]

    def run(self, B, cfg):
        env = self.env(B, cfg)
        p = spec.proportion_blocks(B, env, env.w, self.direction)
        nt = _BASES[self.direction][1](B, env, env.w)
        obj = B.new(
            "%s:_ProportionVariances" % MOD, env.dims, B.stub("second_order_measures"), env.cube_measures, p, nt
        )
        exp = spec.variance_blocks(B, env, env.w, self.direction)
        blocks = obj.blocks
        rows, cols = env.rows, env.cols
        rd_, cd_ = cfg.get("rd"), cfg.get("cd")

        def care(a, b):
            def f(x, y):
                wave = False
                if a == 1 and rd_ and self.direction != "table":
                    wave = B.bor(wave, B.band(rows.is_diff(x), B.bnot(spec.wave_multi(rows, x))))
                if b == 1 and cd_ and self.direction != "table":
                    wave = B.bor(wave, B.band(cols.is_diff(y), B.bnot(spec.wave_multi(cols, y))))
                return B.bnot(wave)

            return f

        for a in (0, 1):
            for b in (0, 1):
                B.eq_tensor("blocks[%d][%d]" % (a, b), blocks[a][b], exp[a][b], care=care(a, b))


for _d in ("row", "column"):
    REGISTRY.append(type("C_VarDates_" + _d, (_VarianceDates,), dict(direction=_d))())


# ---- C20: smoothed measures -----------------------------------------------------------------
class SmoothedMeasures(Contract):
    """smoothed column proportions / column index / means are the smoother applied to the
    unsmoothed base values (row-subtotal proportions too), inserted cells as unsmoothed; the
    smoothed scale mean is the scale mean *of the smoothed proportions*."""

    name = MOD + ":_ColumnProportionsSmoothed/_ColumnIndexSmoothed/_MeansSmoothed/_ScaleMeanSmoothed"
    props = ("C20",)

    def size_space(self, cfg):
        return SliceEnv.size_space(True, True)

    def run(self, B, cfg):
        MO = B.enum("enums:MARGINAL_ORIENTATION")
        env = SliceEnv(B, True, True, False, True)
        R, C = env.R, env.C
        calls = []

        class Smoother:
            """stands for any smoother: smooth(x) is an unknown function S of x, modelled as a
            fresh tensor of the same shape per distinct argument"""

            def __init__(self):
                self.memo = []

            def smooth(self, x):
                for a, r in self.memo:
                    if a is x:
                        return r
                r = B.tensor("S%d" % len(self.memo), x.shape, maybe_nan=True)
                self.memo.append((x, r))
                return r

        # -- column proportions
        sm = Smoother()
        som = _som_props("column")(B, env)
        obj = B.new("%s:_ColumnProportionsSmoothed" % MOD, env.dims, som, env.cube_measures)
        B.cut(obj, "_smoother", sm)
        blocks = obj.blocks
        plain = spec.proportion_blocks(B, env, env.w, "column")
        B.check("proportions: smoother applied twice", len(sm.memo) == 2)
        args = [a for a, _ in sm.memo]
        B.eq_tensor("proportions: smooth(base values)", args[0], plain[0][0])
        B.eq_tensor("proportions: smooth(row subtotals)", args[1], plain[1][0])
        B.check("proportions: blocks[0][0] is the smoothed array", blocks[0][0] is sm.memo[0][1] and blocks[1][0] is sm.memo[1][1])
        B.eq_tensor("proportions: inserted columns unsmoothed", blocks[0][1], plain[0][1])
        B.eq_tensor("proportions: intersections unsmoothed", blocks[1][1], plain[1][1])
        # -- smoothed scale mean = scale mean of the smoothed column proportions
        sm2 = Smoother()
        values = B.tensor("numeric_values", (R,), maybe_nan=True)
        dims = (B.stub("rows", subtotals=env.rows.seq, dimension_type=env.rdim.dimension_type, numeric_values=B.seq(R, lambda k: B.rd(values, k), "nv")), env.cdim)
        pblocks = spec.proportion_blocks(B, env, env.w, "column")
        som2 = B.stub("second_order_measures", column_proportions=blocks_stub(B, "column_proportions", pblocks))
        sc = B.new("%s:_ScaleMeanSmoothed" % MOD, dims, som2, env.cube_measures, MO.COLUMNS)
        B.cut(sc, "_smoother", sm2)
        try:
            out = sc.blocks
        except ValueError:
            return
        B.check("scale-mean: smoother applied to base and inserted column proportions", len(sm2.memo) == 2 and sm2.memo[0][0] is pblocks[0][0] and sm2.memo[1][0] is pblocks[0][1])
        for bi, n_vec in ((0, C), (1, env.cols.S)):
            S = sm2.memo[bi][1]

            def mean(j, S=S):
                hv = lambda i: B.bnot(B.isnan(B.rd(values, i)))
                num = B.Sum(R, lambda i: B.ite(B.bor(B.bnot(hv(i)), B.isnan(B.rd(S, i, j))), 0.0, B.rd(values, i) * B.rd(S, i, j)))
                den = B.Sum(R, lambda i: B.ite(hv(i), B.rd(S, i, j), 0.0))
                return num / den

            B.eq_tensor("scale-mean: blocks[%d]" % bi, out[bi], B.spec_tensor((n_vec,), mean))


REGISTRY.append(SmoothedMeasures())


# ---- C13 pairwise t statistics and p-values ---------------------------------------------------
class PairwiseTstats(Contract):
    """_PairwiseSigTstats.blocks: every cell compares its own column with the selected column
    a (a body column, or -- negative index -- a subtotal column) of the same row block, with
    n the unweighted column base or the effective base (sum w)^2 / sum w^2 when squared
    weights are supplied."""

    name = MOD + ":_PairwiseSigTstats.blocks"
    props = ("C13",)

    def configs(self):
        return [dict(sq=s, neg=n) for s in (False, True) for n in (False, True)]

    def size_space(self, cfg):
        return {"R": [1, 2], "C": [1, 2], "SR": [0, 1], "SC": [0, 1, 2], "a": [0, 1, -1, -2]}

    def state(self, B, cfg):
        R, C, SR, SC = B.size("R", lo=1), B.size("C", lo=1), B.size("SR"), B.size("SC", lo=1 if cfg["neg"] else 0)
        shapes = [[(R, C), (R, SC)], [(SR, C), (SR, SC)]]

        def blocks(tag, **kw):
            return [[B.tensor("%s%d%d" % (tag, a, b), shapes[a][b], **kw) for b in (0, 1)] for a in (0, 1)]

        P = blocks("P", maybe_nan=True)
        U, W, Q = blocks("U", nonneg=True, maybe_nan=True), blocks("W", nonneg=True, maybe_nan=True), blocks("Q", nonneg=True, maybe_nan=True)
        a = B.integer("a", -SC, 0) if cfg["neg"] else B.integer("a", 0, C)
        som = dict(
            column_proportions=blocks_stub(B, "column_proportions", P),
            columns_squared_base=B.stub("columns_squared_base", is_defined=cfg["sq"]),
            column_weighted_bases=blocks_stub(B, "column_weighted_bases", W),
            column_squared_bases=blocks_stub(B, "column_squared_bases", Q),
            column_unweighted_bases=blocks_stub(B, "column_unweighted_bases", U),
        )

        def N(a_, b_, x, y):
            if cfg["sq"]:
                w = B.rd(W[a_][b_], x, y)
                return w * w / B.rd(Q[a_][b_], x, y)
            return B.rd(U[a_][b_], x, y)

        return R, C, SR, SC, shapes, P, N, a, som

    def run(self, B, cfg):
        R, C, SR, SC, shapes, P, N, a, som = self.state(B, cfg)
        dims = (B.stub("rows"), B.stub("cols"))
        obj = B.new("%s:_PairwiseSigTstats" % MOD, dims, B.stub("second_order_measures", **som), B.stub("cube_measures"), a)
        blocks = obj.blocks
        refb = 1 if cfg["neg"] else 0
        ra = (a + SC) if cfg["neg"] else a
        for a_ in (0, 1):
            for b_ in (0, 1):
                def cell(x, y, a_=a_, b_=b_):
                    return spec.tstat_cell(B, B.rd(P[a_][b_], x, y), N(a_, b_, x, y), B.rd(P[a_][refb], x, ra), N(a_, refb, x, ra))

                B.eq_tensor("blocks[%d][%d]" % (a_, b_), blocks[a_][b_], B.spec_tensor(shapes[a_][b_], cell))
        # column against itself: t == 0 (or NaN when the variance term vanishes)
        if not cfg["neg"]:
            blk = blocks[0][0]
            B.all_cells("self-comparison", (R,), lambda x: B.bor(B.isnan(B.rd(blk, x, a)), B.feq(B.rd(blk, x, a), 0)))

    def assumptions(self):
        return ["the radicand is taken in absolute value (only differs from the statement for subtotal-difference cells)"]


REGISTRY.append(PairwiseTstats())


class PairwisePvals(PairwiseTstats):
    """_PairwiseSigPvals.blocks: two-sided Student-t p-value with n_a + n_b - 2 degrees of
    freedom, in [0, 1]; 1 for the selected column against itself."""

    name = MOD + ":_PairwiseSigPvals.blocks"

    def run(self, B, cfg):
        R, C, SR, SC, shapes, P, N, a, som = self.state(B, cfg)
        T = [[B.tensor("T%d%d" % (a_, b_), shapes[a_][b_], maybe_nan=True) for b_ in (0, 1)] for a_ in (0, 1)]
        som["pairwise_t_stats"] = lambda col_idx: blocks_stub(B, "pairwise_t_stats", T, _col=col_idx)
        dims = (B.stub("rows"), B.stub("cols"))
        obj = B.new("%s:_PairwiseSigPvals" % MOD, dims, B.stub("second_order_measures", **som), B.stub("cube_measures"), a)
        blocks = obj.blocks
        refb = 1 if cfg["neg"] else 0
        ra = (a + SC) if cfg["neg"] else a
        for a_ in (0, 1):
            for b_ in (0, 1):
                def cell(x, y, a_=a_, b_=b_):
                    df = N(a_, b_, x, y) + N(a_, refb, x, ra) - 2
                    return 2 * (1 - B.Tcdf(abs(B.rd(T[a_][b_], x, y)), df))

                exp = B.spec_tensor(shapes[a_][b_], cell)
                B.eq_tensor("blocks[%d][%d]" % (a_, b_), blocks[a_][b_], exp)
                blk = blocks[a_][b_]
                B.all_cells(
                    "p-in[0,1][%d][%d]" % (a_, b_), shapes[a_][b_],
                    lambda x, y, blk=blk: B.bor(B.isnan(B.rd(blk, x, y)), B.band(B.fle(0, B.rd(blk, x, y)), B.fle(B.rd(blk, x, y), 1))),
                )

    def assumptions(self):
        return ["A-CDF: scipy.stats.t.cdf(x, df) in [0,1], = 1/2 at 0, symmetric, NaN-propagating, NaN for df <= 0"]


REGISTRY.append(PairwisePvals())


class PairwiseLemmas(Contract):
    """C13 lemmas over the statement's formula: t(a,b) == -t(b,a); p(a,b) == p(b,a);
    t(a,a) == 0; p(a,a) == 1 >= alpha so a column is never in its own index set"""

    name = MOD + ":lemma.pairwise-antisymmetry"
    props = ("C13",)

    def run(self, B, cfg):
        pa, pb = B.real("pa"), B.real("pb")
        na, nb = B.real("na", nonneg=True), B.real("nb", nonneg=True)
        alpha = B.real("alpha")
        tab = spec.tstat_cell(B, pb, nb, pa, na)
        tba = spec.tstat_cell(B, pa, na, pb, nb)
        B.check("t-antisymmetric", B.bor(B.isnan(tab), B.feq(tab, -tba)))
        B.check("t-nan-symmetric", B.isnan(tab) == B.isnan(tba))
        df = na + nb - 2
        p_ab = 2 * (1 - B.Tcdf(abs(tab), df))
        p_ba = 2 * (1 - B.Tcdf(abs(tba), df))
        B.check("p-symmetric", B.bor(B.isnan(p_ab), B.feq(p_ab, p_ba)))
        taa = spec.tstat_cell(B, pa, na, pa, na)
        B.check("t(a,a)==0-or-NaN", B.bor(B.isnan(taa), B.feq(taa, 0)))
        p_aa = 2 * (1 - B.Tcdf(abs(taa), na + na - 2))
        B.check("p(a,a)==1-or-NaN", B.bor(B.isnan(p_aa), B.feq(p_aa, 1)))
        B.check("self-never-significant", B.bor(B.bnot(B.band(alpha > 0, alpha < 1)), B.isnan(p_aa), B.bnot(p_aa < alpha)))


REGISTRY.append(PairwiseLemmas())



class ComparableCounts(_BlocksContract):
    """_ColumnComparableCounts / _RowComparableCounts: signed-merge counts with differences in
    the *other* direction NaN; undefined (ValueError) across an array dimension"""

    props = ("C04", "C14")
    cls = None
    side = None

    def run(self, B, cfg):
        from .matrix_subtotals_c import sum_blocks_spec

        env = self.env(B, cfg)
        obj = B.new("%s:%s" % (MOD, self.cls), env.dims, B.stub("second_order_measures"), env.cube_measures)
        # defined iff the dimension summed across is not an array (MR, CA or numeric array)
        dtype = (env.cdim if self.side == "column" else env.rdim).dimension_type
        defined = not (dtype in env.DT.ARRAY_TYPES)
        try:
            blocks = obj.blocks
        except ValueError:
            B.check("undefined-only-across-array-dimension", not defined)
            return
        B.check("defined-only-without-array-dimension", defined)
        exp = sum_blocks_spec(B, env.w.counts, env.R, env.C, env.rows, env.cols, self.side == "row", self.side == "column")
        check_blocks(B, "blocks", blocks, exp)


REGISTRY.append(type("C_ColCmp", (ComparableCounts,), dict(cls="_ColumnComparableCounts", side="column"))())
REGISTRY.append(type("C_RowCmp", (ComparableCounts,), dict(cls="_RowComparableCounts", side="row"))())



class ScaleMeanStderr(Contract):
    """_ScaleMeanStderr.blocks: standard deviation over the square root of the vector's
    weighted margin; defined only when both are"""

    name = MOD + ":_ScaleMeanStderr.blocks"
    props = ("C14",)

    def configs(self):
        return [dict(o=o, sd=a, mg=b) for o in ("rows", "columns") for a in (True, False) for b in (True, False)]

    def size_space(self, cfg):
        return {"N": [0, 1, 2], "S": [0, 1, 2]}

    def run(self, B, cfg):
        MO = B.enum("enums:MARGINAL_ORIENTATION")
        N, S = B.size("N"), B.size("S")
        sd = [B.tensor("sd0", (N,), nonneg=True, maybe_nan=True), B.tensor("sd1", (S,), nonneg=True, maybe_nan=True)]
        mg = [B.tensor("mg0", (N,), nonneg=True, maybe_nan=True), B.tensor("mg1", (S,), nonneg=True, maybe_nan=True)]
        other = B.stub("other-orientation")
        pre = "rows" if cfg["o"] == "rows" else "columns"
        som = B.stub(
            "second_order_measures",
            **{pre + "_scale_mean_stddev": B.stub("stddev", blocks=sd, is_defined=cfg["sd"]),
               pre + "_weighted_base": B.stub("margin", blocks=mg, is_defined=cfg["mg"])}
        )
        obj = B.new("%s:_ScaleMeanStderr" % MOD, (B.stub("r"), B.stub("c")), som, B.stub("cm"), MO.ROWS if cfg["o"] == "rows" else MO.COLUMNS)
        try:
            blocks = obj.blocks
        except ValueError:
            B.check("undefined-only-when-sd-or-margin-undefined", not (cfg["sd"] and cfg["mg"]))
            return
        B.check("defined-only-when-both-defined", cfg["sd"] and cfg["mg"])
        for b, n in ((0, N), (1, S)):
            B.eq_tensor("blocks[%d]" % b, blocks[b], B.spec_tensor((n,), lambda x, b=b: B.rd(sd[b], x) / B.sqrt(B.rd(mg[b], x))))


REGISTRY.append(ScaleMeanStderr())


class WeightedMedian(Contract):
    """_ScaleMedian._weighted_median(sorted_counts, sorted_values): for integer counts the
    median of the expanded multiset of respondent values: (L + U) / 2 with L / U the values at
    0-based positions floor((N-1)/2) / floor(N/2) of the value-sorted respondents; NaN counts
    (difference vectors) count as 0; NaN when nobody has a value."""

    name = MOD + ":_ScaleMedian._weighted_median"
    props = ("C14",)
    tier = "B"

    def size_space(self, cfg):
        return {"n": [1, 2, 3, 4]}

    def run(self, B, cfg):
        n = B.size("n", lo=1)
        counts = B.tensor("counts", (n,), nonneg=True, integer=True)
        values = B.tensor("values", (n,))
        nn = int(n)
        # sorted, duplicate-free not required: non-decreasing
        for k in range(nn - 1):
            if B.mode != "C":
                B.c.assume(__import__("pvc").core.raw(B.rd(values, k) <= B.rd(values, k + 1)))
        if B.mode == "C":
            import numpy as np

            order = np.argsort(values)
            values = values[order]
            counts = np.round(counts[order])
        fn = B.cls("%s:_ScaleMedian" % MOD)._weighted_median
        got = fn(counts, values)
        # oracle: positions in the expanded multiset
        cum = []
        acc = 0
        for k in range(nn):
            acc = acc + B.rd(counts, k)
            cum.append(acc)
        N = cum[-1]

        def value_at(pos_times2_plus, half):
            """value of the respondent at 0-based position p where 2p == N-1 (half) rounded down, or p == N/2"""
            out = B.rd(values, nn - 1)
            for k in range(nn - 2, -1, -1):
                # respondent p is in category k iff cum[k] > p  (first such k)
                out = B.ite(half(cum[k]), B.rd(values, k), out)
            return out

        # L: first k with cum[k] > floor((N-1)/2)  <=> 2*cum[k] > N-1 ... (integers) <=> 2*cum[k] >= N  when N-1 odd/even handled by integrality
        L = value_at(None, lambda c: 2 * c >= N)       # p = floor((N-1)/2): cum > p  <=> 2cum > N-1-[(N-1) odd] <=> 2cum >= N
        U = value_at(None, lambda c: 2 * c > N)        # p = floor(N/2):     cum > p  <=> 2cum > N   (N even) / 2cum >= N+1 (N odd)
        exp = B.ite(N == 0, B.NaN(), (L + U) / 2)
        B.eq_scalar("median", got, exp)

    def assumptions(self):
        return ["integer counts (the statement's case); sorted_values non-decreasing with NaN values removed (contract of _values_sort_order / _sorted_values, checked end-to-end in e2e_c.ScaleStats)"]


REGISTRY.append(WeightedMedian())


# C10 (exchange of the two dimensions) rests on every class-level contract of this module: the
# row-direction result of a response equals the transposed column-direction result of the
# exchanged response because each class meets its own spec function and the spec functions
# are mirror images (contracts/mirror_c.py).  A change that breaks one of a pair of twins
# fails that class's contract, so each of them is also run by the C10 check.
for _c in REGISTRY:
    if (_c.__class__.__module__ == __name__ and "C10" not in _c.props and "lemma." not in _c.name
            and not any(w in _c.name for w in ('Pairwise', 'Smoothed'))):
        _c.props = tuple(_c.props) + ("C10",)
