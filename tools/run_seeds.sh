#!/bin/sh
# re-run every seeded change against the check of the property it breaks (scratch copies
# of /repo under /dev/shm via PVC_REPO_SRC; /repo itself is not touched)
out=/verif/seeded/RESULTS.txt; : > $out
for d in /verif/seeded/C*/ /verif/seeded/S*/ /verif/seeded/T*/ /verif/seeded/U*/ /verif/seeded/V*/; do
  id=$(basename $d)
  prop=$(/venv/bin/python -c "import json,sys; print(json.load(open('$d/meta.json'))['property'])")
  echo "##### seed $id (property $prop)" >> $out
  SEED_TIMEOUT=1500 /verif/tools/try_seed.sh $d $prop 2>&1 | grep -v "^  obligation" | tail -5 | cut -c1-400 >> $out
done
