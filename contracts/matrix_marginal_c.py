"""Contracts for the 1-D marginals and table values of cr.cube.matrix.measure that carry the
'collapsed forms' clause of C02 (margins, table base / margin, [min, max] ranges), the margin
proportions of C03, and for the _Slice properties that choose between the 1-D marginal and
the 2-D per-cell fallback when a margin is undefined across an array dimension."""
from pvc.harness import Contract, REGISTRY
from . import spec
from .common import SliceEnv
from .matrix_measure_c import blocks_stub
from .cubepart_c import new_slice, wrap

MOD = "matrix.measure"
CP = "cubepart"


def _orient(B, o):
    MO = B.enum("enums:MARGINAL_ORIENTATION")
    return MO.ROWS if o == "rows" else MO.COLUMNS


class _MarginContract(Contract):
    props = ("C02",)

    def configs(self):
        return [dict(o=o, rc=rc, cc=cc) for o in ("rows", "columns") for rc in (True, False) for cc in (True, False)]

    def size_space(self, cfg):
        return SliceEnv.size_space(cfg["rc"], cfg["cc"])

    def assumptions(self):
        return ["A-DIM (R >= 1, C >= 1), A-NOSUB-ARR; callee contracts: base-block classes (_Row/_Column...Bases.blocks) and "
                "cube-count interface as verified in matrix.measure / matrix.cubemeasure contracts"]


class MarginBases(_MarginContract):
    """_MarginWeightedBase / _MarginUnweightedBase: defined exactly when the opposing dimension
    is not an array; then the 1-D margin is the (column-independent) per-cell base of each
    vector: base vectors and subtotals (NaN for a difference: own direction)"""

    def __init__(self, weighted):
        self.weighted = weighted
        self.cls = "_MarginWeightedBase" if weighted else "_MarginUnweightedBase"
        self.name = "%s:%s.blocks / is_defined" % (MOD, self.cls)

    def run(self, B, cfg):
        env = SliceEnv(B, cfg["rc"], cfg["cc"])
        cc = env.w if self.weighted else env.u
        rows_o = cfg["o"] == "rows"
        wu = "weighted" if self.weighted else "unweighted"
        bname = ("row_%s_bases" if rows_o else "column_%s_bases") % wu
        bspec = spec.row_base_blocks if rows_o else spec.column_base_blocks
        DT = env.DT
        opp_is_cat = cfg["cc"] if rows_o else cfg["rc"]
        som = B.stub(
            "second_order_measures",
            **{
                bname: blocks_stub(B, bname, bspec(B, env, cc)),
                "column_comparable_counts": B.stub("ccc", is_defined=cfg["cc"]),
                "row_comparable_counts": B.stub("rcc", is_defined=cfg["rc"]),
            }
        )
        obj = B.new("%s:%s" % (MOD, self.cls), env.dims, som, env.cube_measures, _orient(B, cfg["o"]))
        B.check("is_defined <=> opposing dimension is not an array", bool(obj.is_defined) == opp_is_cat)
        try:
            blocks = obj.blocks
        except ValueError:
            B.check("ValueError-only-when-undefined", not opp_is_cat)
            return
        B.check("defined-gives-blocks", opp_is_cat)
        st = env.rows if rows_o else env.cols
        n = env.R if rows_o else env.C
        vb = cc.rows_base if rows_o else cc.columns_base
        B.check("two-blocks", len(blocks) == 2)
        B.eq_tensor("blocks[0]", blocks[0], B.spec_tensor((n,), lambda i: B.rd(vb, i)))
        B.eq_tensor(
            "blocks[1]", blocks[1],
            B.spec_tensor((st.S,), lambda s: B.ite(st.is_diff(s), B.NaN(), st.pos_sum(s, lambda i: B.rd(vb, i)))),
        )


REGISTRY.append(MarginBases(True))
REGISTRY.append(MarginBases(False))


class MarginTableBase(_MarginContract):
    """_MarginTableBase: 1-D table base per vector, defined when the cube counts carry it
    (the opposing dimension is not an array); every subtotal has the table base of the table"""

    name = MOD + ":_MarginTableBase.blocks / is_defined"

    def run(self, B, cfg):
        env = SliceEnv(B, cfg["rc"], cfg["cc"])
        rows_o = cfg["o"] == "rows"
        cc = env.w
        obj = B.new("%s:_MarginTableBase" % MOD, env.dims, B.stub("som"), env.cube_measures, _orient(B, cfg["o"]), cc.stub)
        vb = cc.rows_table_base if rows_o else cc.columns_table_base
        B.check("is_defined <=> cube counts carry the 1-D table base", bool(obj.is_defined) == (vb is not None))
        try:
            blocks = obj.blocks
        except ValueError:
            B.check("ValueError-only-when-undefined", vb is None)
            return
        B.check("defined-gives-blocks", vb is not None)
        st = env.rows if rows_o else env.cols
        n = env.R if rows_o else env.C
        B.eq_tensor("blocks[0]", blocks[0], B.spec_tensor((n,), lambda i: B.rd(vb, i)))
        # subtotals only exist on a categorical dimension, where every vector has the same
        # table base: that of the table
        B.eq_tensor("blocks[1]", blocks[1], B.spec_tensor((st.S,), lambda s: B.rd(vb, 0)))
        if (cfg["rc"] if rows_o else cfg["cc"]):
            B.all_cells("cat-vectors-share-one-table-base", (n,), lambda i: B.feq(B.rd(vb, i), B.rd(vb, 0)))


REGISTRY.append(MarginTableBase())


class TableValues(Contract):
    """_TableBase.value: the scalar table base, defined only when neither dimension is an
    array; _TableBasesRange.value: [min, max] of the per-cell table bases (unpruned)"""

    name = MOD + ":_TableBase.value / _TableBasesRange.value"
    props = ("C02",)

    def configs(self):
        return SliceEnv.CAT_CONFIGS

    def size_space(self, cfg):
        return {"R": [1, 2, 3], "C": [1, 2, 3], "rows.S": [0], "cols.S": [0]}

    def run(self, B, cfg):
        env = SliceEnv(B, cfg["rc"], cfg["cc"])
        cc = env.u
        tb = B.new("%s:_TableBase" % MOD, env.dims, B.stub("som"), env.cube_measures, cc.stub)
        both = cfg["rc"] and cfg["cc"]
        B.check("is_defined <=> no array dimension", bool(tb.is_defined) == both)
        try:
            v = tb.value
            B.check("defined-gives-value", both)
            B.eq_scalar("value", v, cc.table_base)
        except ValueError:
            B.check("ValueError-only-when-undefined", not both)
        rng = B.new("%s:_TableBasesRange" % MOD, env.dims, B.stub("som"), env.cube_measures, cc.stub).value
        lo, hi = B.rd(rng, 0), B.rd(rng, 1)
        B.all_cells(
            "range:bounds", (env.R, env.C),
            lambda i, j: B.band(B.fle(lo, B.rd(cc.table_bases, i, j)), B.fle(B.rd(cc.table_bases, i, j), hi)),
        )
        if both:
            B.check("range:cat-x-cat-is-table-base", B.band(B.feq(lo, cc.table_base), B.feq(hi, cc.table_base)))


REGISTRY.append(TableValues())


class MarginTableProportion(_MarginContract):
    """C03: margin proportions are the margin over the table base -- per vector the summed
    weighted count (signed for a difference) over the vector's table base"""

    name = MOD + ":_MarginTableProportion.blocks / is_defined"
    props = ("C03", "C04")

    def run(self, B, cfg):
        env = SliceEnv(B, cfg["rc"], cfg["cc"])
        rows_o = cfg["o"] == "rows"
        cc = env.w
        opp_is_cat = cfg["cc"] if rows_o else cfg["rc"]
        cnt_b = spec.count_blocks(B, env, cc)
        vb = cc.rows_table_base if rows_o else cc.columns_table_base
        st = env.rows if rows_o else env.cols
        n = env.R if rows_o else env.C
        n_opp = env.C if rows_o else env.R
        tname = "rows_table_weighted_base" if rows_o else "columns_table_weighted_base"
        tb_blocks = None
        if vb is not None:
            tb_blocks = [B.spec_tensor((n,), lambda i: B.rd(vb, i)), B.spec_tensor((st.S,), lambda s: B.rd(vb, 0))]
        som = B.stub(
            "second_order_measures",
            weighted_counts=blocks_stub(B, "weighted_counts", cnt_b),
            column_comparable_counts=B.stub("ccc", is_defined=cfg["cc"]),
            row_comparable_counts=B.stub("rcc", is_defined=cfg["rc"]),
            **({tname: B.stub(tname, blocks=tb_blocks)} if tb_blocks is not None else {})
        )
        obj = B.new("%s:_MarginTableProportion" % MOD, env.dims, som, env.cube_measures, _orient(B, cfg["o"]))
        B.check("is_defined <=> opposing dimension is not an array", bool(obj.is_defined) == opp_is_cat)
        if not opp_is_cat:
            return
        blocks = obj.blocks
        rd = B.rd

        def total(block, x):
            return B.Sum(n_opp, (lambda j: rd(block, x, j)) if rows_o else (lambda i: rd(block, i, x)))

        b0 = cnt_b[0][0]
        b1 = cnt_b[1][0] if rows_o else cnt_b[0][1]
        B.eq_tensor("blocks[0]", blocks[0], B.spec_tensor((n,), lambda i: total(b0, i) / rd(vb, i)))
        B.eq_tensor("blocks[1]", blocks[1], B.spec_tensor((st.S,), lambda s: total(b1, s) / rd(vb, 0)))


REGISTRY.append(MarginTableProportion())


# =======================================================================================
# _Slice: 1-D marginal when defined, 2-D per-cell fallback otherwise

FALLBACKS = {
    # property: (marginal measure, matrix property used when the marginal is undefined)
    "rows_margin": ("rows_weighted_base", "row_weighted_bases"),
    "columns_margin": ("columns_weighted_base", "column_weighted_bases"),
    "rows_base": ("rows_unweighted_base", "row_unweighted_bases"),
    "columns_base": ("columns_unweighted_base", "column_unweighted_bases"),
}


class SliceMarginFallbacks(Contract):
    """C02: rows/columns margin and base are the assembled 1-D marginal when it is defined and
    the assembled per-cell bases otherwise; table base / margin cascade scalar -> per-column ->
    per-row -> per-cell; the ranges come from the (unpruned) range values"""

    name = CP + ":_Slice.rows/columns margin, base; table_base, table_margin, ranges"
    props = ("C02", "C05")

    def run(self, B, cfg):
        class Rec:
            def __init__(self, tag, is_defined=True):
                self.tag, self.is_defined = tag, is_defined
                self.value = ("value", tag)

        for prop, (mname, fallback) in sorted(FALLBACKS.items()):
            for defined in (True, False):
                m = Rec(mname, defined)
                sl = new_slice(B)
                B.cut(sl, "_measures", B.stub("measures", **{mname: m}))
                tok = object()
                B.cut(sl, fallback, tok)
                sl.__dict__["_assemble_marginal"] = lambda marginal: ("marginal", marginal)
                got = getattr(sl, prop)
                if defined:
                    B.check("%s:defined" % prop, got == ("marginal", m))
                else:
                    B.check("%s:undefined->%s" % (prop, fallback), got is tok)
        for prop, wu in (("table_base", "unweighted"), ("table_margin", "weighted")):
            names = ["table_%s_base" % wu, "columns_table_%s_base" % wu, "rows_table_%s_base" % wu]
            for k in range(4):  # the first defined one of the three wins; none: per-cell bases
                ms = {n: Rec(n, i == k) for i, n in enumerate(names)}
                sl = new_slice(B)
                B.cut(sl, "_measures", B.stub("measures", **ms))
                tok = object()
                B.cut(sl, "table_%s_bases" % wu, tok)
                sl.__dict__["_assemble_marginal"] = lambda marginal: ("marginal", marginal)
                got = getattr(sl, prop)
                exp = [("value", names[0]), ("marginal", ms[names[1]]), ("marginal", ms[names[2]]), tok][k]
                B.check("%s:case%d" % (prop, k), (got is tok) if k == 3 else got == exp)
        for prop, mname in (("table_base_range", "table_unweighted_bases_range"), ("table_margin_range", "table_weighted_bases_range")):
            m = Rec(mname)
            sl = new_slice(B)
            B.cut(sl, "_measures", B.stub("measures", **{mname: m}))
            B.check(prop, getattr(sl, prop) == ("value", mname))
        for prop, mname in (("rows_margin_proportion", "rows_table_proportion"), ("columns_margin_proportion", "columns_table_proportion")):
            m = Rec(mname, True)
            sl = new_slice(B)
            B.cut(sl, "_measures", B.stub("measures", **{mname: m}))
            sl.__dict__["_assemble_marginal"] = lambda marginal: ("marginal", marginal)
            B.check("%s:defined" % prop, getattr(sl, prop) == ("marginal", m))


REGISTRY.append(SliceMarginFallbacks())


class SliceMarginProportion2D(Contract):
    """C03 / C05: when the opposing dimension is an array the margin proportion is 2-D: for
    every displayed cell the vector's base over the cell's table base, i.e. the untransformed
    values re-indexed by the display orders (a difference vector has no base of its own: NaN)"""

    name = CP + ":_Slice.rows/columns_margin_proportion<2-D, opposing array dimension>"
    props = ("C03", "C05")
    tier = "B"

    def configs(self):
        return [dict(o="rows"), dict(o="columns")]

    def size_space(self, cfg):
        v = "rows" if cfg["o"] == "rows" else "cols"
        return {"R": [1, 2], "C": [1, 2], "NV": [1, 2, 3], "NO": [1, 2],
                v + ".S": [0, 1], v + ".add.n[0]": [1, 2], v + ".sub.n[0]": [0, 1]}

    def run(self, B, cfg):
        rows_o = cfg["o"] == "rows"
        env = SliceEnv(B, rows_cat=rows_o, cols_cat=not rows_o)
        R, C = env.R, env.C
        cc = env.w
        st = env.rows if rows_o else env.cols
        NV, NO = B.size("NV"), B.size("NO")
        n_vec, n_opp = (R, C) if rows_o else (C, R)
        vec_order = B.order_list("vec_order", NV, -st.S, n_vec, distinct=True)
        opp_order = B.order_list("opp_order", NO, 0, n_opp, distinct=True)
        base_b = (spec.row_base_blocks if rows_o else spec.column_base_blocks)(B, env, cc)
        tb_b = spec.table_base_blocks(B, env, cc)
        pre = "row" if rows_o else "column"
        som = B.stub(
            "measures",
            **{
                pre + "s_weighted_base": B.stub("margin", is_defined=False),
                pre + "s_table_proportion": B.stub("proportion", is_defined=False),
                pre + "_weighted_bases": blocks_stub(B, "bases", base_b),
                "table_weighted_bases": blocks_stub(B, "table_bases", tb_b),
            }
        )
        sl = new_slice(B)
        B.cut(sl, "_measures", som)
        B.cut(sl, "_dimensions", env.dims)
        B.cut(sl, "_row_order_signed_indexes", vec_order if rows_o else opp_order)
        B.cut(sl, "_column_order_signed_indexes", opp_order if rows_o else vec_order)
        got = getattr(sl, pre + "s_margin_proportion")
        rd = B.rd

        def M(blocks, x, y):
            """block matrix at payload coordinates (x over rows ++ row subtotals, y likewise)"""
            if int(st.S) == 0:
                return rd(blocks[0][0], x, y)
            if rows_o:
                return B.ite(x < R, rd(blocks[0][0], x, y), rd(blocks[1][0], x - R, y))
            return B.ite(y < C, rd(blocks[0][0], x, y), rd(blocks[0][1], x, y - C))

        def cell(w, v):
            if rows_o:
                x, y = wrap(B, B.idx_at(vec_order, w), R + st.S), B.idx_at(opp_order, v)
            else:
                x, y = B.idx_at(opp_order, w), wrap(B, B.idx_at(vec_order, v), C + st.S)
            return M(base_b, x, y) / M(tb_b, x, y)

        shape = (NV, NO) if rows_o else (NO, NV)
        B.eq_tensor(pre + "s_margin_proportion", got, B.spec_tensor(shape, cell))

    def assumptions(self):
        return ["bounded: <= 2 x 2 base cells, <= 1 subtotal (<= 2 addends, <= 1 subtrahend) on the vector dimension, "
                "duplicate-free display orders of length <= 3 / <= 2 (tier B, symbolic contents)"]


REGISTRY.append(SliceMarginProportion2D())


class SlicePopulation(Contract):
    """C17 for a slice: population estimate = population proportion x population x filtered
    fraction, NaN on every difference row and difference column; margin of error = 1.959964 x
    population x fraction x population std-error"""

    name = CP + ":_Slice.population_counts / population_counts_moe"
    props = ("C17", "C04")
    tier = "B"

    def size_space(self, cfg):
        return {"R": [1], "C": [1, 2], "SR": [0, 2], "SC": [0, 1], "NR": [0, 1, 3], "NC": [1, 2]}

    def run(self, B, cfg):
        R, C, SR, SC = B.size("R", lo=1), B.size("C", lo=1), B.size("SR"), B.size("SC")
        NR, NC = B.size("NR"), B.size("NC")
        r, c, sr, sc = int(R), int(C), int(SR), int(SC)
        ro = B.order_list("row_order", NR, -SR, R, distinct=True)
        co = B.order_list("col_order", NC, -SC, C, distinct=True)
        rdiff = [B.flag("rdiff%d" % i) for i in range(sr)]
        cdiff = [B.flag("cdiff%d" % i) for i in range(sc)]
        pop, frac = B.real("population", nonneg=True), B.real("fraction", nonneg=True, maybe_nan=True)

        def blocks(tag, **kw):
            return [[B.tensor(tag + "00", (R, C), **kw), B.tensor(tag + "01", (R, SC), **kw)],
                    [B.tensor(tag + "10", (SR, C), **kw), B.tensor(tag + "11", (SR, SC), **kw)]]

        pb = blocks("p", maybe_nan=True)
        eb = blocks("e", maybe_nan=True, nonneg=True)
        rdim = B.stub("rows", valid_elements=[B.stub("el") for _ in range(r)],
                      subtotals=[B.stub("st", is_difference=rdiff[i]) for i in range(sr)])
        cdim = B.stub("cols", valid_elements=[B.stub("el") for _ in range(c)],
                      subtotals=[B.stub("st", is_difference=cdiff[i]) for i in range(sc)])
        som = B.stub("measures", population_proportions=B.stub("pp", blocks=pb), population_std_err=B.stub("pe", blocks=eb))
        sl = new_slice(B, cube=B.stub("cube", population_fraction=frac), population=pop)
        B.cut(sl, "_dimensions", (rdim, cdim))
        B.cut(sl, "_measures", som)
        B.cut(sl, "_row_order_signed_indexes", ro)
        B.cut(sl, "_column_order_signed_indexes", co)
        rd = B.rd

        def M(b, x, y):
            top = rd(b[0][0], x, y) if sc == 0 else B.ite(y < C, rd(b[0][0], x, y), rd(b[0][1], x, y - C))
            if sr == 0:
                return top
            bot = rd(b[1][0], x - R, y) if sc == 0 else B.ite(y < C, rd(b[1][0], x - R, y), rd(b[1][1], x - R, y - C))
            return B.ite(x < R, top, bot)

        def flag(flags, base_n, x):
            out = False
            for i, f in enumerate(flags):
                out = (f if x == base_n + i else out) if B.mode == "C" else B.ite(x == base_n + i, f, out)
            return out

        def cell(w, v):
            x, y = wrap(B, B.idx_at(ro, w), R + SR), wrap(B, B.idx_at(co, v), C + SC)
            return B.ite(B.bor(flag(rdiff, r, x), flag(cdiff, c, y)), B.NaN(), M(pb, x, y) * pop * frac)

        def mcell(w, v):
            x, y = wrap(B, B.idx_at(ro, w), R + SR), wrap(B, B.idx_at(co, v), C + SC)
            return 1.959964 * pop * frac * M(eb, x, y)

        B.eq_tensor("population_counts", sl.population_counts, B.spec_tensor((NR, NC), cell))
        sl2 = new_slice(B, cube=B.stub("cube", population_fraction=frac), population=pop)
        B.cut(sl2, "_dimensions", (rdim, cdim))
        B.cut(sl2, "_measures", som)
        B.cut(sl2, "_row_order_signed_indexes", ro)
        B.cut(sl2, "_column_order_signed_indexes", co)
        B.eq_tensor("population_counts_moe", sl2.population_counts_moe, B.spec_tensor((NR, NC), mcell))

    def assumptions(self):
        return ["bounded: 1 x (1..2) base cells, 0 or 2 row subtotals, <= 1 column subtotal, duplicate-free display orders "
                "(tier B, symbolic contents)"]


REGISTRY.append(SlicePopulation())


class PairwiseMeansWelch(Contract):
    """C13 for mean responses: Welch's unequal-variance test on the cell means, standard
    deviations and (unweighted) counts of column b against the selected column a in the same
    row: t = (m_b - m_a) / sqrt(s_b^2/n_b + s_a^2/n_a), Welch-Satterthwaite degrees of freedom,
    two-sided Student-t p-value; subtotals NaN; a selected *subtotal* column gives NaN"""

    name = MOD + ":_PairwiseMeansSigTStats / _PairwiseMeansSigPVals.blocks"
    props = ("C13", "C04")

    def configs(self):
        return [dict(neg=False), dict(neg=True)]

    def size_space(self, cfg):
        sp = SliceEnv.size_space(True, True)
        return sp

    def run(self, B, cfg):
        env = SliceEnv(B, True, True)
        R, C = env.R, env.C
        M = B.tensor("means", (R, C), maybe_nan=True)
        SD = B.tensor("stddev", (R, C), nonneg=True, maybe_nan=True)
        N = B.tensor("n", (R, C), nonneg=True)
        cm = B.stub(
            "cube_measures", cube_means=B.stub("cube_means", means=M), cube_stddev=B.stub("cube_stddev", stddev=SD),
            unweighted_cube_counts=B.stub("u", counts=N),
        )
        a = B.integer("a", -env.cols.S, -1) if cfg["neg"] else B.integer("a", 0, C - 1)
        rd = B.rd
        nan_blocks = lambda: [[None, B.spec_tensor((R, env.cols.S), lambda i, t: B.NaN())],  # noqa: E731
                              [B.spec_tensor((env.rows.S, C), lambda s, j: B.NaN()),
                               B.spec_tensor((env.rows.S, env.cols.S), lambda s, t: B.NaN())]]

        def var(i, j):
            return rd(SD, i, j) * rd(SD, i, j)

        def tcell(i, j):
            if cfg["neg"]:
                return B.NaN()
            return (rd(M, i, j) - rd(M, i, a)) / B.sqrt(var(i, j) / rd(N, i, j) + var(i, a) / rd(N, i, a))

        def df(i, j):
            x, y = var(i, j) / rd(N, i, j), var(i, a) / rd(N, i, a)
            return (x + y) * (x + y) / (x * x / (rd(N, i, j) - 1) + y * y / (rd(N, i, a) - 1))

        t_obj = B.new("%s:_PairwiseMeansSigTStats" % MOD, env.dims, B.stub("som"), cm, a)
        tb = t_obj.blocks
        exp = nan_blocks()
        exp[0][0] = B.spec_tensor((R, C), tcell)
        for x in (0, 1):
            for y in (0, 1):
                B.eq_tensor("t:blocks[%d][%d]" % (x, y), tb[x][y], exp[x][y])
        if cfg["neg"]:
            return
        p_obj = B.new("%s:_PairwiseMeansSigPVals" % MOD, env.dims, B.stub("som"), cm, a)
        pb = p_obj.blocks
        expp = nan_blocks()
        expp[0][0] = B.spec_tensor((R, C), lambda i, j: 2 * (1 - B.Tcdf(abs(tcell(i, j)), df(i, j))))
        for x in (0, 1):
            for y in (0, 1):
                B.eq_tensor("p:blocks[%d][%d]" % (x, y), pb[x][y], expp[x][y])
        blk = pb[0][0]
        B.all_cells(
            "p-in[0,1]", (R, C),
            lambda i, j: B.bor(B.isnan(rd(blk, i, j)), B.band(B.fle(0, rd(blk, i, j)), B.fle(rd(blk, i, j), 1))),
        )
        # the selected column against itself: t == 0 (or NaN), never significant
        B.all_cells("t(a,a)==0-or-NaN", (R,), lambda i: B.bor(B.isnan(rd(tb[0][0], i, a)), B.feq(rd(tb[0][0], i, a), 0)))

    def assumptions(self):
        return ["A-CDF: scipy.stats.t.cdf(x, df) in [0,1], = 1/2 at 0, symmetric, NaN-propagating, NaN for df <= 0",
                "cut: cube means / stddev / unweighted (valid) counts as delivered by their plane-selector contracts"]


REGISTRY.append(PairwiseMeansWelch())


class PairwiseOverlapHelper(Contract):
    """C13, overlapping multiple-response columns: comparing item b with the selected item a
    in a row:  t = (p_b - p_a) / sqrt((pa(1-pa) + pb(1-pb) + 2 pa pb - 2 pab) / df),
    df = Na + Nb - Nab (respondents valid on a or b), pa = Sa/Na, pb = Sb/Nb, pab = Sab/Nab
    from the overlap tensors, two-sided Student-t p-value with df - 2 degrees of freedom;
    an item against itself gives t = 0 and is never significant (p = 1)"""

    name = MOD + ":_PairwiseSignificaneBetweenSubvariablesHelper.t_stats / p_vals"
    props = ("C13",)

    def configs(self):
        return [dict(same=False), dict(same=True)]

    def size_space(self, cfg):
        return {"R": [1, 2], "K": [1, 2, 3]}

    def run(self, B, cfg):
        R, K = B.size("R", lo=1), B.size("K", lo=1)
        P = B.tensor("column_proportions", (R, K), maybe_nan=True)
        S = B.tensor("selected_bases", (R, K, K), nonneg=True)
        V = B.tensor("valid_bases", (R, K, K), nonneg=True)
        r = B.integer("row", 0, R - 1)
        a = B.integer("a", 0, K - 1)
        b = a if cfg["same"] else B.integer("b", 0, K - 1)
        if not cfg["same"] and B.mode != "C":
            B.c.assume(__import__("pvc").core.raw(a != b))
        if not cfg["same"] and B.mode == "C" and int(a) == int(b):
            from pvc.harness import SkipInput

            raise SkipInput()
        h = B.new("%s:_PairwiseSignificaneBetweenSubvariablesHelper" % MOD, P, S, V, r, a, b)
        t, p = h.t_stats, h.p_vals
        rd = B.rd
        if cfg["same"]:
            B.check("self:t==0", B.feq(t, 0))
            alpha = B.real("alpha")
            B.check("self:p==1", B.feq(p, 1))
            B.check("self:never-significant", B.bor(B.bnot(B.band(alpha > 0, alpha < 1)), B.bnot(p < alpha)))
            return
        Sa, Sb, Sab = rd(S, r, a, a), rd(S, r, b, b), rd(S, r, a, b)
        Na, Nb, Nab = rd(V, r, a, a), rd(V, r, b, b), rd(V, r, a, b)
        pa, pb, pab = Sa / Na, Sb / Nb, Sab / Nab
        df = Na + Nb - Nab
        et = (rd(P, r, b) - rd(P, r, a)) / B.sqrt(1 / df * (pa * (1 - pa) + pb * (1 - pb) + 2 * pa * pb - 2 * pab))
        B.eq_scalar("t", t, et)
        B.eq_scalar("p", p, 2 * (1 - B.Tcdf(abs(et), df - 2)))

    def assumptions(self):
        return ["A-CDF (scipy.stats.t.cdf); overlap tensors selected_bases / valid_bases [row, item, item] as delivered by the "
                "cube-overlap classes (not under contract: _CatXMrOverlaps, _MrXMrOverlaps)"]


REGISTRY.append(PairwiseOverlapHelper())


class CubeOverlaps(Contract):
    """overlap cube measures (C13 overlap variant): for a CAT x MR slice the bases of the
    item pair (a, b) are counted over *all* row categories (the column bases of the items) and
    repeated for every row; for MR x MR they are per row item, over its selected and other
    answers.  selected = both items selected; valid = both items non-missing."""

    props = ("C13",)

    def __init__(self, mrxmr):
        self.mrxmr = mrxmr
        self.cls = "_MrXMrOverlaps" if mrxmr else "_CatXMrOverlaps"
        self.name = "matrix.cubemeasure:%s.selected_bases / valid_bases" % self.cls

    def size_space(self, cfg):
        return {"R": [1, 2], "K": [1, 2, 3]}

    def run(self, B, cfg):
        R, K = B.size("R", lo=1), B.size("K", lo=1)
        shape = (R, 2, K, 2, K) if self.mrxmr else (R, K, 2, K)
        O = B.tensor("overlaps", shape, nonneg=True)
        V = B.tensor("valid_overlaps", shape, nonneg=True)
        obj = B.new("matrix.cubemeasure:%s" % self.cls, B.stub("dimensions"), O, V)
        rd = B.rd
        if self.mrxmr:
            sel = lambda r, a, b: rd(O, r, 0, a, 0, b) + rd(O, r, 1, a, 0, b)  # noqa: E731
            val = lambda r, a, b: (rd(V, r, 0, a, 0, b) + rd(V, r, 0, a, 1, b)  # noqa: E731
                                   + rd(V, r, 1, a, 0, b) + rd(V, r, 1, a, 1, b))
        else:
            sel = lambda r, a, b: B.Sum(R, lambda q: rd(O, q, a, 0, b))  # noqa: E731
            val = lambda r, a, b: B.Sum(R, lambda q: rd(V, q, a, 0, b) + rd(V, q, a, 1, b))  # noqa: E731
        B.eq_tensor("selected_bases", obj.selected_bases, B.spec_tensor((R, K, K), sel))
        B.eq_tensor("valid_bases", obj.valid_bases, B.spec_tensor((R, K, K), val))

    def assumptions(self):
        return ["response format (A-RESP): the overlap measure carries, per cell of the cube, the count of respondents who "
                "also selected / were valid on item b (last axis); selection axes restricted to [selected, other]"]


REGISTRY.append(CubeOverlaps(False))
REGISTRY.append(CubeOverlaps(True))


class PairwiseForSubvar(Contract):
    """_PairwiseSigTStatsForSubvar / _PairwiseSigPValsForSubvar.blocks: every cell (row r, item
    k) is the overlap-corrected comparison of item k with the selected item in row r; inserted
    rows use the subtotal's column proportions with the same item bases (they are counted over
    all categories); an MR columns dimension has no inserted columns"""

    name = MOD + ":_PairwiseSigTStatsForSubvar / _PairwiseSigPValsForSubvar.blocks"
    props = ("C13", "C04")
    tier = "B"
    quick_cap = 14  # ~4 s per size configuration (nested loops over rows x items)

    def configs(self):
        # the selected item's own p-value is a separate configuration (open finding F19)
        return [dict(part="other-items"), dict(part="selected-item")]

    def size_space(self, cfg):
        return {"R": [1, 2], "K": [1, 2], "SR": [0, 1]}

    def run(self, B, cfg):
        R, K, SR = B.size("R", lo=1), B.size("K", lo=1), B.size("SR")
        r_, k_, sr = int(R), int(K), int(SR)
        P0 = B.tensor("colprops00", (R, K), maybe_nan=True)
        P1 = B.tensor("colprops10", (SR, K), maybe_nan=True)
        # CAT x MR: item bases are the same for every row (contract of _CatXMrOverlaps)
        S0 = B.tensor("sel", (K, K), nonneg=True)
        V0 = B.tensor("val", (K, K), nonneg=True)
        S = B.spec_tensor((R, K, K), lambda r, a, b: B.rd(S0, a, b))
        V = B.spec_tensor((R, K, K), lambda r, a, b: B.rd(V0, a, b))
        a = B.integer("a", 0, K - 1)
        rows = [B.stub("subtotal", addend_idxs=[0], subtrahend_idxs=[]) for _ in range(sr)]
        dims = (B.stub("rows", subtotals=rows), B.stub("cols", subtotals=[]))
        som = B.stub("som", column_proportions=B.stub("cp", blocks=[[P0, None], [P1, None]]))
        cm = B.stub("cm", cube_overlaps=B.stub("ov", selected_bases=S, valid_bases=V))
        rd = B.rd

        def t_of(Pblk, x, k):
            Sa, Sb, Sab = rd(S0, a, a), rd(S0, k, k), rd(S0, a, k)
            Na, Nb, Nab = rd(V0, a, a), rd(V0, k, k), rd(V0, a, k)
            pa, pb, pab = Sa / Na, Sb / Nb, Sab / Nab
            df = Na + Nb - Nab
            t = (rd(Pblk, x, k) - rd(Pblk, x, a)) / B.sqrt(1 / df * (pa * (1 - pa) + pb * (1 - pb) + 2 * pa * pb - 2 * pab))
            return t, df

        tb = B.new("%s:_PairwiseSigTStatsForSubvar" % MOD, dims, som, cm, a).blocks
        pb_ = B.new("%s:_PairwiseSigPValsForSubvar" % MOD, dims, som, cm, a).blocks
        if cfg["part"] == "selected-item":
            for blk_i, n in ((0, R), (1, SR)):
                B.eq_tensor("p:blocks[%d][0]:selected-item" % blk_i, pb_[blk_i][0],
                            B.spec_tensor((n, K), lambda x, k: 1.0), care=lambda x, k: k == a)
            return
        for name, blocks in (("t", tb), ("p", pb_)):
            B.check(name + ":no-inserted-columns", int(blocks[0][1].shape[1]) == 0 and int(blocks[1][1].shape[1]) == 0
                    and int(blocks[0][1].shape[0]) == r_ and int(blocks[1][1].shape[0]) == sr)
        for blk_i, Pblk, n in ((0, P0, R), (1, P1, SR)):
            def tcell(x, k, Pblk=Pblk):
                return B.ite(k == a, 0.0, t_of(Pblk, x, k)[0])

            def pcell(x, k, Pblk=Pblk):
                t, df = t_of(Pblk, x, k)
                return B.ite(k == a, 1.0, 2 * (1 - B.Tcdf(abs(t), df - 2)))

            B.eq_tensor("t:blocks[%d][0]" % blk_i, tb[blk_i][0], B.spec_tensor((n, K), tcell))
            B.eq_tensor("p:blocks[%d][0]:other-items" % blk_i, pb_[blk_i][0], B.spec_tensor((n, K), pcell), care=lambda x, k: k != a)

    def assumptions(self):
        return ["bounded: <= 2 rows, <= 2 items, <= 1 inserted row (tier B, symbolic contents); CAT x MR shape of the overlap "
                "bases (identical for every row: contract of _CatXMrOverlaps)"]


REGISTRY.append(PairwiseForSubvar())


class SliceScaleMeanMargins(Contract):
    """C14 / C05: the scale-mean margin of a slice is the weighted mean of the opposing...
    precisely: columns_scale_mean_margin = sum_i v_i m_i / sum_i m_i over the base rows i that
    carry a numeric value v_i, m_i the row's weighted margin (first column of the per-cell row
    bases); rows_scale_mean_margin is the mirror image.  Computed from the base vectors in
    payload order: no display order, hidden or inserted vector enters (the slice is given no
    order vectors at all); None when no element has a numeric value."""

    name = CP + ":_Slice.columns/rows_scale_mean_margin"
    props = ("C14", "C05")

    def configs(self):
        return [dict(o="columns"), dict(o="rows")]

    def size_space(self, cfg):
        return {"R": [1, 2, 3], "C": [1, 2, 3]}

    def run(self, B, cfg):
        R, C = B.size("R", lo=1), B.size("C", lo=1)
        bases = B.tensor("bases", (R, C), nonneg=True)
        cols_o = cfg["o"] == "columns"
        n = R if cols_o else C
        values = B.tensor("numeric_values", (n,), maybe_nan=True)
        vseq = B.seq(n, lambda k: B.rd(values, k), "numeric_values")
        dim = B.stub("dimension", numeric_values=vseq)
        other = B.stub("other_dimension")
        mname = "row_weighted_bases" if cols_o else "column_weighted_bases"
        som = B.stub("measures", **{mname: blocks_stub(B, mname, [[bases, None], [None, None]])})
        sl = new_slice(B)
        B.cut(sl, "_measures", som)
        B.cut(sl, "_dimensions", (dim, other) if cols_o else (other, dim))
        got = getattr(sl, cfg["o"] + "_scale_mean_margin")
        rd = B.rd

        def m(k):
            return rd(bases, k, 0) if cols_o else rd(bases, 0, k)

        def hv(k):
            return B.bnot(B.isnan(rd(values, k)))

        from .stripe_c import _all_nan

        no_values = _all_nan(B, values, n)
        if got is None:
            B.check("None-only-without-numeric-values", no_values)
            return
        B.check("defined-only-with-numeric-values", B.bnot(no_values))
        num = B.Sum(n, lambda k: B.ite(hv(k), rd(values, k) * m(k), 0.0))
        den = B.Sum(n, lambda k: B.ite(hv(k), m(k), 0.0))
        B.eq_scalar("margin", got, num / den)


REGISTRY.append(SliceScaleMeanMargins())


# C10 (exchange of the two dimensions) rests on every class-level contract of this module: the
# row-direction result of a response equals the transposed column-direction result of the
# exchanged response because each class meets its own spec function and the spec functions
# are mirror images (contracts/mirror_c.py).  A change that breaks one of a pair of twins
# fails that class's contract, so each of them is also run by the C10 check.  (Not the 2-D
# margin-proportion contract: it carries the open finding F17, which is a defect of both
# directions alike - not evidence against the exchange property.)
for _c in REGISTRY:
    if (_c.__class__.__module__ == __name__ and "C10" not in _c.props and "lemma." not in _c.name
            and not any(w in _c.name for w in ('Pairwise', 'Overlaps', 'margin_proportion<2-D'))):
        _c.props = tuple(_c.props) + ("C10",)
