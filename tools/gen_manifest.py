#!/venv/bin/python
"""Regenerate MANIFEST.json from the table below (kept valid at all times)."""
import json, os, sys
ROOT = os.path.dirname(os.path.dirname(os.path.abspath(__file__)))
PROPS = [json.loads(l) for l in open(os.path.join(ROOT, "properties.jsonl"))]

TRUST = ("Trusted base: A-REAL (floats as exact reals, NaN/Inf conflated), A-NP/A-CDF (numpy / scipy.stats as modelled by "
         "the pvc facade; exercised by concrete replays on real numpy, not proved), A-RESP (response is a tabulation), "
         "Sigma rewrite rules, the pvc engine and z3. Callee contracts assumed at each modular cut are listed in the evidence file.")

CLAIMED = {
 # id: (design_ref, text, technique)
 "C02": ("5 C02", "Every per-cell base / margin / pruning base of the nine cube-count classes and of the six base-block measure classes is a "
         "postcondition proved for all sizes against the eligibility formulas of the statement.",
         "contracts on real functions; VC generation by symbolic execution of the real bodies; z3 discharge (unbounded)"),
 "C03": ("5 C03", "Proportion blocks proved equal to count/base per block incl. NaN-iff-zero-base, [0,1] range and sums-to-one, for all sizes, subtotal lists and type pairings.",
         "contracts + Sigma normal form + z3 (unbounded)"),
 "C04": ("5 C04", "Signed-merge block formulas of every measure, intersection order-independence (Fubini), NaN rules and the categorical-date rule are proved as postconditions of the real subtotal and measure classes.",
         "contracts + Sigma normal form (Fubini) + z3 (unbounded)"),
 "C11": ("5 C11", "Three-term variance code proved equal to the indicator variance E[X^2]-E[X]^2 per block, non-negativity and sqrt(var/base) standard errors.",
         "contracts + rational-function identity certificates + z3 NRA"),
 "C12": ("5 C12", "Adjusted standardized residual formula, rank guard, p-value range and the 2x2 chi-square identity proved for all tables.",
         "contracts + rational-function identity certificates + z3"),
 "C15": ("5 C15", "Every share-of-sum block proved to divide by the base-cell total of its row / column / table.",
         "contracts + Sigma normal form + z3 (unbounded)"),
}

def main():
    checks = []
    for pid, (ref, text, tech) in sorted(CLAIMED.items()):
        checks.append({
            "property_id": pid,
            "quick_cmd": "./check %s --tier quick" % pid,
            "thorough_cmd": "./check %s --tier thorough" % pid,
            "evidence_file": "evidence/%s.json" % pid,
            "replay_cmd_template": "./check --replay {path}",
            "engine": "pvc",
            "level_claimed": {"category": "proof", "text": text, "design_ref": "DESIGN.md section " + ref},
            "level_note": TRUST,
            "technique": tech,
        })
    na = [{"property_id": p["id"], "reason": "check under construction in this build session (see DESIGN.md section 5); not yet claimed"}
          for p in PROPS if p["id"] not in CLAIMED]
    m = {
        "version": 1,
        "setup_cmd": "/venv/bin/pip install --quiet --no-index --find-links /opt/veriftools/wheels --target /verif/.deps z3-solver && /venv/bin/python -m compileall -q /verif/pvc /verif/contracts",
        "hooks": {"guard": "CR_CUBE_VERIF", "enable": "none needed: the verifier re-reads /repo/src on every run; the repository is not instrumented",
                  "baseline_off_cmd": "cd /repo && /venv/bin/python -m pytest -ra -q -p no:cacheprovider --timeout=900 --continue-on-collection-errors",
                  "source_commits": [], "add_only": True},
        "engines": [{"name": "pvc", "path": "pvc/", "serves_properties": sorted(CLAIMED),
                     "kind_free_text": "contract-based deductive verifier: symbolic execution of the real function bodies over a numpy facade, sidecar contracts, z3 discharge"}],
        "checks": checks,
        "not_applicable": na,
        "notes": "Genuine defects repaired by fix: commits in /repo are recorded in known_findings.json.",
    }
    json.dump(m, open(os.path.join(ROOT, "MANIFEST.json"), "w"), indent=1)
    print("MANIFEST: %d checks, %d not_applicable" % (len(checks), len(na)))

if __name__ == "__main__":
    main()
