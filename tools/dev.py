"""Developer helper: run every contract whose name contains <substring> (all configs) through
the same worker the check uses and print a summary.   tools/dev.py <substring> [tier]"""
import multiprocessing as mp
import os
import sys

sys.path.insert(0, os.path.dirname(os.path.dirname(os.path.abspath(__file__))))
import pvc  # noqa: E402,F401
from pvc import cli, run  # noqa: E402


def main():
    sel = sys.argv[1]
    tier = sys.argv[2] if len(sys.argv) > 2 else "quick"
    cs = cli.load_contracts()
    tasks = []
    for ci, c in enumerate(cs):
        if sel in c.name:
            for gi, _ in enumerate(c.configs()):
                tasks.append((ci, gi, tier, int(os.environ.get("VERIF_SEED", "0"))))
    if True:
        for r in cli.run_tasks(tasks, min(16, max(1, len(tasks))), cli._deadline(tier)):
            nob = len(r["obligations"])
            ok = sum(1 for o in r["obligations"] if o.get("status") == "proved")
            print("%-60s %-28s tier=%s obl=%d/%d paths=%s cover=%s %.1fs" % (
                r["contract"][:60], r["cfg"][:28], r["tier"], ok, nob, r["paths"], str(r["cover"])[:12], r["secs"]))
            if r.get("crash"):
                print("   CRASH", r["crash"])
            for v in r["violations"]:
                print("   VIOLATION", v["obligation"], "confirmed" if v.get("confirmed") else "unconfirmed",
                      str(v.get("replay"))[:400])
            for u in r["undecided"]:
                print("   UNDECIDED", u["obligation"], str(u.get("reason"))[:300])
            if r.get("conform") and r["conform"].get("failures"):
                print("   CONFORM-FAIL", str(r["conform"]["failures"][:1])[:600])
            if os.environ.get("DEV_VERBOSE"):
                for o in r["obligations"]:
                    print("     ", o.get("status"), o.get("name"))


if __name__ == "__main__":
    main()
