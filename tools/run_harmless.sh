#!/bin/sh
# all behaviour-preserving edits of seeded/harmless/ applied together to a scratch copy of
# /repo: every check must stay green (no false alarm).  /repo itself is not touched.
s=/dev/shm/harmless_$$
rm -rf $s; mkdir -p $s; rsync -a --exclude .git /repo/ $s/
for d in /verif/seeded/harmless/H*/; do (cd $s && patch -s -p1 < $d/patch.diff) || echo "PATCH FAILED $d"; done
trap 'rm -rf '$s EXIT
cd /verif
for p in C01 C02 C03 C04 C05 C06 C07 C08 C09 C10 C11 C12 C13 C14 C15 C16 C17 C18 C19 C20; do
  PVC_REPO_SRC=$s/src ./check $p 2>&1 | grep -E "^(VIOLATION|UNDECIDED|CHECKER-CRASH|C[0-9][0-9]:)" | cut -c1-260
done
