"""Contracts for cr.cube.cube (C17 fraction cascade, C01 raw arrays, C06 partitioning)."""
from pvc.harness import Contract, REGISTRY

MOD = "cube"

_ABSENT = object()


class PopulationFraction(Contract):
    """C17: filtered fraction = selected / (selected + other) of the weighted complete-case
    filter statistics when present (1 for a categorical-date filter), else filtered over
    unfiltered weighted N, 1 when unspecified, NaN when the denominator is zero.
    Exhaustive over the shapes of the response's filter statistics; numbers symbolic."""

    name = MOD + ":_Measures.population_fraction"
    props = ("C17",)

    NEW = ("absent", "no-filtered_complete", "weighted-null", "weighted-empty", "complete")
    DATE = (_ABSENT, True, False, None)
    OLD = ("both", "no-filtered", "no-unfiltered", "null-filtered", "null-unfiltered", "neither")

    def configs(self):
        out = []
        for new in self.NEW:
            if new == "complete":
                for d in range(len(self.DATE)):
                    out.append(dict(new=new, date=d, old="both"))
            else:
                for old in self.OLD:
                    out.append(dict(new=new, date=0, old=old))
        return out

    def run(self, B, cfg):
        result = {}
        sel = oth = a = b = None
        if cfg["new"] != "absent":
            fs = {}
            if cfg["new"] == "weighted-null":
                fs["filtered_complete"] = {"weighted": None}
            elif cfg["new"] == "weighted-empty":
                fs["filtered_complete"] = {"weighted": {}}
            elif cfg["new"] == "complete":
                sel, oth = B.pynum("selected", nonneg=True), B.pynum("other", nonneg=True)
                fs["filtered_complete"] = {"weighted": {"selected": sel, "other": oth}}
                d = self.DATE[cfg["date"]]
                if d is not _ABSENT:
                    fs["is_cat_date"] = d
            result["filter_stats"] = fs
        old = cfg["old"]
        if old in ("both", "no-unfiltered", "null-unfiltered"):
            a = B.pynum("filtered_n", nonneg=True)
            result["filtered"] = {"weighted_n": a}
        if old == "null-filtered":
            result["filtered"] = {"weighted_n": None}
        if old in ("both", "no-filtered", "null-filtered"):
            b = B.pynum("unfiltered_n", nonneg=True)
            result["unfiltered"] = {"weighted_n": b}
        if old == "null-unfiltered":
            result["unfiltered"] = {"weighted_n": None}
        m = B.new(MOD + ":_Measures", {"result": result}, B.stub("all_dimensions"))
        got = m.population_fraction
        if cfg["new"] == "complete":
            if self.DATE[cfg["date"]] is True:
                B.check("cat-date-filter-is-1", B.feq(got, 1))
                return
            num, den = sel, sel + oth
        elif old == "both":
            num, den = a, b
        else:
            B.check("unspecified-is-1", B.feq(got, 1))
            return
        # Python numbers: zero denominator -> NaN (never an exception, never Inf)
        if den == 0:
            B.check("zero-denominator-is-NaN", B.isnan(got))
        else:
            B.check("fraction", B.feq(got, num / den))

    def assumptions(self):
        return ["JSON numbers are Python int/float (division by zero raises ZeroDivisionError); "
                "a truthy filtered_complete.weighted carries both 'selected' and 'other'"]


REGISTRY.append(PopulationFraction())
