"""Sidecar contracts on the real functions of /repo/src/cr/cube (repository untouched)."""
