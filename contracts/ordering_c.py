"""C07 / C08 / C09: display order of a dimension (anchored payload / explicit order,
sort-by-value, hiding and pruning) -- bounded stand-in by enumeration (tier E) on the real
Dimension / _Subtotals / collator / order-helper classes against an oracle written from the
property statements, plus unbounded lemmas over the sort keys (tier P)."""
import itertools
import math
import random
import types

from pvc.harness import Contract, EnumContract, REGISTRY


# ---------------------------------------------------------------------------------------
# oracle (from the statements of C07 / C09; independent of the implementation)


def valid_cats(case):
    return [c for c in case["cats"] if not c["missing"]]


def resolve_anchor(a, valid_ids):
    if a is None:
        return "bottom"
    try:
        k = int(a)
    except (TypeError, ValueError):
        return a.lower()
    return k if k in valid_ids else "bottom"


def valid_insertions(case):
    """insertions that are real subtotals (C04: ids that are missing or stale contribute
    nothing; an insertion needs an anchor, a name and at least one valid id; hidden ones
    disappear)"""
    vids = set(c["id"] for c in valid_cats(case))
    out = []
    src = case["ins_transforms"] if case["ins_transforms"] is not None else case["ins_view"]
    for ins in src:
        if not isinstance(ins, dict) or ins.get("function") != "subtotal" or ins.get("hide") is True:
            continue
        if "anchor" not in ins or "name" not in ins:
            continue
        pos = ins.get("kwargs", {}).get("positive") or ins.get("args", [])
        neg = ins.get("kwargs", {}).get("negative", [])
        if not (vids & set(pos + neg)):
            continue
        out.append(ins)
    return out, case["ins_transforms"] is None


def base_order(case):
    vc = valid_cats(case)
    ids = [c["id"] for c in vc]
    order = case.get("explicit")
    if order is None:
        return list(range(len(ids)))
    seen, out = set(), []
    for i in order:
        if i in ids and i not in seen:
            seen.add(i)
            out.append(ids.index(i))
    out += [k for k in range(len(ids)) if ids[k] not in seen]
    return out


def hidden_set(case):
    vc = valid_cats(case)
    hid = set(k for k, c in enumerate(vc) if case["hide"].get(str(c["id"])) is True)
    if case["prune"] is True:
        hid |= set(k for k, e in enumerate(case["empty"][: len(vc)]) if e)
    return hid


def oracle_order(case):
    vc = valid_cats(case)
    ids = [c["id"] for c in vc]
    subs, from_view = valid_insertions(case)
    S = len(subs)
    anchors = [resolve_anchor(s["anchor"], set(ids)) for s in subs]
    hid = hidden_set(case)
    out = [k - S for k in range(S) if anchors[k] == "top"]
    for el in base_order(case):
        if el not in hid:
            out.append(el)
        out += [k - S for k in range(S) if anchors[k] == ids[el]]
    out += [k - S for k in range(S) if anchors[k] == "bottom"]
    if case["opp_prune"] is True and case["opp_all_empty"]:
        out = [o for o in out if o >= 0]
    return out


def oracle_insertion_ids(case):
    """'ins_N': explicit id, else 1-based rank in payload display order (view) or 1-based
    definition position (analysis)"""
    subs, from_view = valid_insertions(case)
    if all("id" in s for s in subs):
        return [s["id"] for s in subs]
    if not from_view:
        return [s["id"] if "id" in s else k + 1 for k, s in enumerate(subs)]
    ids = [c["id"] for c in valid_cats(case)]
    anchors = [resolve_anchor(s["anchor"], set(ids)) for s in subs]
    rank_order = [k for k in range(len(subs)) if anchors[k] == "top"]
    for i in ids:
        rank_order += [k for k in range(len(subs)) if anchors[k] == i]
    rank_order += [k for k in range(len(subs)) if anchors[k] == "bottom"]
    rank = {k: r + 1 for r, k in enumerate(rank_order)}
    return [s["id"] if "id" in s else rank[k] for k, s in enumerate(subs)]


# ---------------------------------------------------------------------------------------


def build_dimension(case, prune_key="prune"):
    from cr.cube.dimension import Dimension
    from cr.cube.enums import DIMENSION_TYPE as DT
    import copy

    cats = [
        dict(id=c["id"], name="cat%d" % c["id"], missing=c["missing"], numeric_value=None)
        for c in case["cats"]
    ]
    dd = {
        "type": {"class": "categorical", "categories": cats},
        "references": {"alias": "v", "name": "V", "view": {"transform": {"insertions": copy.deepcopy(case["ins_view"])}}},
    }
    tr = {}
    if case["ins_transforms"] is not None:
        tr["insertions"] = copy.deepcopy(case["ins_transforms"])
    if case.get("explicit") is not None:
        tr["order"] = {"type": "explicit", "element_ids": list(case["explicit"])}
    if case["hide"]:
        tr["elements"] = {k: {"hide": v} for k, v in case["hide"].items()}
    if case[prune_key] is not None:
        tr["prune"] = case[prune_key]
    return Dimension(dd, DT.CAT, tr)


def gen_case(rnd):
    n = rnd.choice([1, 2, 2, 3, 3, 4])
    # category ids need not be ascending in payload order
    idpool = list(range(1, n + 1)) if rnd.random() < 0.5 else rnd.sample(range(1, 10), n)
    cats = [dict(id=idpool[i], missing=rnd.random() < 0.2) for i in range(n)]
    if all(c["missing"] for c in cats):
        cats[rnd.randrange(n)]["missing"] = False
    ids = [c["id"] for c in cats]

    def mk_ins(k):
        anchor_pool = ["top", "bottom", "Top", "BOTTOM", None, 99, "99"] + ids + [str(i) for i in ids]
        ins = {"function": "subtotal", "name": "s%d" % k, "anchor": rnd.choice(anchor_pool)}
        pos = rnd.choice([[ids[0]], [ids[-1]], ids[:2], [99], [ids[0], 99], []])
        if rnd.random() < 0.5:
            ins["args"] = pos
        else:
            ins["kwargs"] = {"positive": pos}
            if rnd.random() < 0.4:
                ins["kwargs"]["negative"] = rnd.choice([[ids[-1]], [99], []])
        if rnd.random() < 0.5:
            ins["id"] = rnd.choice([5, 7, 9, 11]) + k * 20
        if rnd.random() < 0.08:
            ins["hide"] = True
        if rnd.random() < 0.04:
            ins["function"] = "other"
        if rnd.random() < 0.03:
            del ins["name"]
        return ins

    ins = [mk_ins(k) for k in range(rnd.choice([0, 1, 1, 2, 2, 3]))]
    in_transforms = rnd.random() < 0.4
    explicit = None
    if rnd.random() < 0.5:
        pool = ids + [99]
        explicit = [rnd.choice(pool) for _ in range(rnd.choice([0, 1, 2, 3, 4]))]
    hide = {}
    for i in ids:
        r = rnd.random()
        if r < 0.2:
            hide[str(i)] = True
        elif r < 0.25:
            hide[str(i)] = False
    return dict(
        cats=cats,
        ins_view=[] if in_transforms else ins,
        ins_transforms=ins if in_transforms else None,
        explicit=explicit,
        hide=hide,
        prune=rnd.choice([None, True, True, False, "yes"]),
        empty=[rnd.random() < 0.35 for _ in range(n)],
        opp_prune=rnd.choice([None, True, True, False]),
        opp_all_empty=rnd.random() < 0.4,
    )


class AnchoredOrder(EnumContract):
    name = "collator:anchored display order (Dimension + _Subtotals + Payload/ExplicitOrderCollator + _RowOrderHelper/_ColumnOrderHelper)"
    props = ("C07", "C09", "C05", "C04")
    bound = "<= 4 categories (any missing positions), <= 3 insertions with any anchor spelling, explicit lists <= 4 entries incl. repeats/stale ids, any hide/prune flags; seeded sample"
    clauses = ("signed-order", "bogus-ids", "no-duplicates", "columns-twin")

    def cases(self, cfg, seed, thorough):
        rnd = random.Random(1000 + seed)
        for _ in range(60000 if thorough else 6000):
            yield gen_case(rnd)

    def check_case(self, case, cfg):
        import numpy as np
        from cr.cube.matrix.assembler import _BaseOrderHelper
        from cr.cube.enums import ORDER_FORMAT

        bad = []
        dim = build_dimension(case)
        nvalid = len(valid_cats(case))
        opp_case = dict(case, cats=[dict(id=1, missing=False), dict(id=2, missing=False)], ins_view=[], ins_transforms=None,
                        explicit=None, hide={}, prune=case["opp_prune"])
        opp = build_dimension(opp_case)
        rows_mask = np.array(case["empty"][:nvalid] + [False] * max(0, nvalid - len(case["empty"])), dtype=bool)
        opp_mask = np.array([True, True] if case["opp_all_empty"] else [True, False], dtype=bool)
        som = types.SimpleNamespace(rows_pruning_mask=rows_mask, columns_pruning_mask=opp_mask)
        want = oracle_order(case)
        got = [int(i) for i in _BaseOrderHelper.row_display_order((dim, opp), som, ORDER_FORMAT.SIGNED_INDEXES)]
        if got != want:
            bad.append("signed-order")
        if len(set(got)) != len(got):
            bad.append("no-duplicates")
        # columns twin (C10): same dimension on the columns side
        som2 = types.SimpleNamespace(rows_pruning_mask=opp_mask, columns_pruning_mask=rows_mask)
        got_c = [int(i) for i in _BaseOrderHelper.column_display_order((build_dimension(opp_case), build_dimension(case)), som2, ORDER_FORMAT.SIGNED_INDEXES)]
        if got_c != want:
            bad.append("columns-twin")
        # bogus-id rendering names the same sequence
        subs, _ = valid_insertions(case)
        S = len(subs)
        ins_ids = oracle_insertion_ids(case)
        want_b = [(o if o >= 0 else "ins_%s" % ins_ids[o + S]) for o in want]
        got_b = list(_BaseOrderHelper.row_display_order((build_dimension(case), build_dimension(opp_case)), som, ORDER_FORMAT.BOGUS_IDS))
        # numpy renders the mixed sequence as strings ('0', 'ins_7'): compare by name
        got_b = [(int(x) if not str(x).startswith("ins_") else str(x)) for x in got_b]
        if got_b != want_b:
            bad.append("bogus-ids")
        return bad


REGISTRY.append(AnchoredOrder())


# =======================================================================================
# C07 lemma (tier P): the anchoring theorem over the collator's sort keys


class AnchoringLemma(Contract):
    """The anchored collators sort (position, rel, idx) triples: base element e ->
    (pos(e), 0, idx(e)), subtotal s -> (-1, 0, neg) top / (MAX, 0, neg) bottom or stale /
    (pos(anchor), 1, neg) with neg = definition index - S < 0.  For *all* sizes: elements
    keep position order, a subtotal follows its anchor and precedes the next element, top /
    bottom groups bracket all elements, equal anchors keep definition order.  (The key
    structure itself is checked against the real code in the bounded enumeration.)"""

    name = "collator:lemma.anchoring-over-sort-keys"
    props = ("C07",)

    def run(self, B, cfg):
        import z3
        from pvc.core import SInt

        MAX = B.integer("MAXSIZE")
        n = B.size("n")
        S = B.size("S", lo=1)
        # two arbitrary base elements and two arbitrary subtotals
        px, py, pa = B.integer("pos_x", 0, n), B.integer("pos_y", 0, n), B.integer("pos_a", 0, n)
        ix, iy = B.integer("idx_x", 0, n), B.integer("idx_y", 0, n)
        ds, dt = B.integer("def_s", 0, S), B.integer("def_t", 0, S)

        def lt(k1, k2):
            (a1, b1, c1), (a2, b2, c2) = k1, k2
            return B.bor(a1 < a2, B.band(a1 == a2, B.bor(b1 < b2, B.band(b1 == b2, c1 < c2))))

        big = MAX > n  # sys.maxsize exceeds any position
        ex, ey = (px, 0, ix), (py, 0, iy)
        ea = (pa, 0, B.integer("idx_a", 0, n))
        s_after_a = (pa, 1, ds - S)
        t_after_a = (pa, 1, dt - S)
        s_top, s_bot = (-1, 0, ds - S), (MAX, 0, ds - S)
        B.check("elements-by-position", B.bor(B.bnot(px < py), lt(ex, ey)))
        B.check("subtotal-after-its-anchor", lt(ea, s_after_a))
        B.check("subtotal-before-next-element", B.bor(B.bnot(py > pa), lt(s_after_a, ey)))
        B.check("subtotal-not-before-earlier-element", B.bor(B.bnot(py < pa), lt(ey, s_after_a)))
        B.check("top-before-every-element", lt(s_top, ex))
        B.check("bottom-after-every-element", B.bor(B.bnot(big), lt(ex, s_bot)))
        B.check("bottom-after-anchored", B.bor(B.bnot(big), lt(t_after_a, s_bot)))
        B.check("same-anchor-keeps-definition-order", B.bor(B.bnot(ds < dt), lt(s_after_a, t_after_a)))
        B.check("same-anchor-keeps-definition-order(top)", B.bor(B.bnot(ds < dt), lt((-1, 0, ds - S), (-1, 0, dt - S))))
        B.check("same-anchor-keeps-definition-order(bottom)", B.bor(B.bnot(ds < dt), lt((MAX, 0, ds - S), (MAX, 0, dt - S))))


REGISTRY.append(AnchoringLemma())


# =======================================================================================
# C08 sort-by-value (tier E)


def gen_sort_case(rnd):
    case = gen_case(rnd)
    case["explicit"] = None
    n = len(case["cats"])
    ids = [c["id"] for c in case["cats"]]
    pool = ids + [99]
    vals = [0.0, 1.0, 1.0, 2.0, 3.0, float("nan")]
    case["sort"] = dict(
        kind=rnd.choice(["opposing_element", "opposing_element", "opposing_insertion", "marginal", "label"]),
        direction=rnd.choice([None, "descending", "ascending"]),
        top=[rnd.choice(pool) for _ in range(rnd.choice([0, 0, 1, 2]))],
        bottom=[rnd.choice(pool) for _ in range(rnd.choice([0, 0, 1, 2]))],
        element_id=rnd.choice([1, 2, 2, 77]),
        insertion_id=rnd.choice([1, 1, 55]),
        measure=rnd.choice(["count_weighted", "col_percent", "bogus_measure", "mean"]),
        marginal=rnd.choice(["unweighted_base", "scale_mean", "bogus_marginal"]),
    )
    case["el_values"] = [rnd.choice(vals) for _ in range(n)]
    case["sub_values"] = [rnd.choice(vals) for _ in range(4)]
    case["labels"] = [rnd.choice(["b", "a", "c", "a"]) for _ in range(n)]
    return case


def _nan(x):
    return isinstance(x, float) and x != x


class SortByValueOrder(EnumContract):
    name = "collator:sort-by-value display order (SortByValueCollator + _Sort*Helper classes, rows and columns)"
    props = ("C08", "C09", "C05")
    bound = "<= 4 categories, <= 3 insertions, fixed top/bottom lists <= 2 entries incl. repeats/stale ids, values from {0,1,2,3,NaN} with ties; seeded sample"
    clauses = ("no-duplicates", "group-structure", "body-monotone", "subtotals-monotone", "visible-set", "fallback", "columns-twin")

    def cases(self, cfg, seed, thorough):
        rnd = random.Random(2000 + seed)
        for _ in range(40000 if thorough else 5000):
            yield gen_sort_case(rnd)

    def _build(self, case, axis):
        import numpy as np
        from cr.cube.dimension import Dimension
        from cr.cube.enums import DIMENSION_TYPE as DT

        s = case["sort"]
        dim = build_dimension(case)
        tr = dict(dim._unshimmed_dimension_transforms_dict)
        order = {"type": s["kind"], "fixed": {"top": list(s["top"]), "bottom": list(s["bottom"])}}
        if s["direction"] is not None:
            order["direction"] = s["direction"]
        if s["kind"] == "opposing_element":
            order.update(element_id=s["element_id"], measure=s["measure"])
        elif s["kind"] == "opposing_insertion":
            order.update(insertion_id=s["insertion_id"], measure=s["measure"])
        elif s["kind"] == "marginal":
            order.update(marginal=s["marginal"])
        tr["order"] = order
        # labels as sort values for 'label' sorting
        if s["kind"] == "label":
            tr["elements"] = dict(tr.get("elements", {}))
            for c, lab in zip(valid_cats(case), case["labels"]):
                e = dict(tr["elements"].get(str(c["id"]), {}))
                e["name"] = lab
                tr["elements"][str(c["id"])] = e
        dim = Dimension(dim._unshimmed_dimension_dict, DT.CAT, tr)
        # opposing dimension: two elements (ids 1, 2), one subtotal with id 1
        opp_dd = {
            "type": {"class": "categorical", "categories": [dict(id=1, name="o1", missing=False), dict(id=2, name="o2", missing=False)]},
            "references": {"alias": "o", "name": "O"},
        }
        opp_tr = {"insertions": [{"function": "subtotal", "name": "os", "anchor": "top", "args": [1], "id": 1}]}
        if case["opp_prune"] is not None:
            opp_tr["prune"] = case["opp_prune"]
        opp = Dimension(opp_dd, DT.CAT, opp_tr)
        nvalid = len(valid_cats(case))
        nsub = len(dim.subtotals)
        ev = np.array(case["el_values"][:nvalid], dtype=float)
        sv = np.array(case["sub_values"][:nsub], dtype=float)
        # measure blocks: the sort column is opposing element id 2 (index 1) / insertion 0
        if axis == 0:
            b00 = np.column_stack([np.full(nvalid, 9.0), ev]) if nvalid else np.zeros((0, 2))
            b10 = np.column_stack([np.full(nsub, 9.0), sv]) if nsub else np.zeros((0, 2))
            b01 = ev.reshape(nvalid, 1)
            b11 = sv.reshape(nsub, 1)
        else:
            b00 = np.vstack([np.full(nvalid, 9.0), ev]) if nvalid else np.zeros((2, 0))
            b01 = np.vstack([np.full(nsub, 9.0), sv]) if nsub else np.zeros((2, 0))
            b10 = ev.reshape(1, nvalid)
            b11 = sv.reshape(1, nsub)
        blocks = [[b00, b01], [b10, b11]]
        meas = types.SimpleNamespace(blocks=blocks)
        marg = types.SimpleNamespace(blocks=[ev, sv])
        own_mask = np.array(case["empty"][:nvalid] + [False] * max(0, nvalid - len(case["empty"])), dtype=bool)
        opp_mask = np.array([True, True] if case["opp_all_empty"] else [True, False], dtype=bool)

        class Som:
            pass

        som = Som()
        som.rows_pruning_mask = own_mask if axis == 0 else opp_mask
        som.columns_pruning_mask = opp_mask if axis == 0 else own_mask
        som.weighted_counts = meas
        som.column_proportions = meas
        som.rows_unweighted_base = marg
        som.rows_scale_mean = marg
        # `means` absent from the response: the real factory raises ValueError
        type(som).means = property(lambda self: (_ for _ in ()).throw(ValueError("cube-result does not contain cube-means measure")))
        dims = (dim, opp) if axis == 0 else (opp, dim)
        return dims, som, dim

    def _resolvable(self, case, axis):
        s = case["sort"]
        if s["kind"] == "label":
            return True
        if s["kind"] == "marginal":
            return s["marginal"] != "bogus_marginal" if axis == 0 else None
        if s["measure"] in ("bogus_measure", "mean"):
            return False
        if s["kind"] == "opposing_element":
            return s["element_id"] in (1, 2)
        return s["insertion_id"] == 1

    def check_case(self, case, cfg):
        from cr.cube.matrix.assembler import _BaseOrderHelper
        from cr.cube.enums import ORDER_FORMAT

        bad = []
        s = case["sort"]
        results = []
        for axis in (0, 1):
            if s["kind"] == "marginal" and axis == 1:
                continue  # sort-by-marginal exists for rows only
            dims, som, dim = self._build(case, axis)
            fn = _BaseOrderHelper.row_display_order if axis == 0 else _BaseOrderHelper.column_display_order
            got = [int(i) for i in fn(dims, som, ORDER_FORMAT.SIGNED_INDEXES)]
            results.append(got)
            tag = "" if axis == 0 else ":columns"
            if len(set(got)) != len(got):
                bad.append("no-duplicates" + tag)
            resolvable = self._resolvable(case, axis)
            nvalid = len(valid_cats(case))
            S = len(dim.subtotals)
            hid = hidden_set(case)
            visible_els = [k for k in range(nvalid) if k not in hid]
            subs_visible = not (case["opp_prune"] is True and case["opp_all_empty"])
            want_set = set(visible_els) | (set(range(-S, 0)) if subs_visible else set())
            if set(got) != want_set:
                bad.append("visible-set" + tag)
            if not resolvable:
                # fallback: anchored payload order
                if got != oracle_order(dict(case, explicit=None)):
                    bad.append("fallback" + tag)
                continue
            if s["kind"] == "opposing_element" and s["element_id"] == 1:
                ev = [9.0] * nvalid
                sv = [9.0] * S
            else:
                ev = case["el_values"][:nvalid] if s["kind"] != "label" else case["labels"][:nvalid]
                sv = case["sub_values"][:S] if s["kind"] != "label" else ["s%d" % k for k in range(S)]
                if s["kind"] == "label":
                    sv = [x.label for x in dim.subtotals]
            desc = s["direction"] != "ascending"
            ids = [c["id"] for c in valid_cats(case)]

            def first_mentions(lst, exclude=()):
                out = []
                for i in lst:
                    if i in ids and ids.index(i) not in out and ids.index(i) not in exclude:
                        out.append(ids.index(i))
                return out

            top = first_mentions(s["top"])
            bottom = first_mentions(s["bottom"], exclude=top)
            subs = [g for g in got if g < 0]
            els = [g for g in got if g >= 0]
            # group structure: subtotals first when descending, last when ascending
            pos_sub = [i for i, g in enumerate(got) if g < 0]
            pos_el = [i for i, g in enumerate(got) if g >= 0]
            if pos_sub and pos_el:
                ok = max(pos_sub) < min(pos_el) if desc else min(pos_sub) > max(pos_el)
                if not ok:
                    bad.append("group-structure" + tag)
            vt = [e for e in top if e not in hid]
            vb = [e for e in bottom if e not in hid]
            uniq = []
            for e in els:
                if e not in uniq:
                    uniq.append(e)
            if uniq[: len(vt)] != vt or (vb and uniq[len(uniq) - len(vb):] != vb):
                bad.append("group-structure" + tag)
            body = [e for e in uniq if e not in vt and e not in vb]
            if not self._monotone(body, ev, desc):
                bad.append("body-monotone" + tag)
            if not self._monotone([g + S for g in subs], sv, desc):
                bad.append("subtotals-monotone" + tag)
        if len(results) == 2 and results[0] != results[1]:
            bad.append("columns-twin")
        return sorted(set(bad))

    @staticmethod
    def _monotone(seq, vals, desc):
        """non-NaN block monotone in the requested direction, then NaN block in payload order"""
        nn = [k for k in seq if not _nan(vals[k])]
        na = [k for k in seq if _nan(vals[k])]
        if seq != nn + na:
            return False
        if na != sorted(na):
            return False
        for a, b in zip(nn, nn[1:]):
            if (vals[a] < vals[b]) if desc else (vals[a] > vals[b]):
                return False
        return True


REGISTRY.append(SortByValueOrder())


# =======================================================================================
# C08 (tier P): keyword -> measure tables and monotone-surrogate lemmas


class SortKeywordTables(Contract):
    """`_measure` / `_marginal` hand the collator the blocks of the measure named by the
    keyword, or of a measure of which the public value is a monotone transform; keywords
    without a table entry raise NotImplementedError (not a fallback: listed)."""

    name = "matrix.assembler:_BaseOrderHelper._measure / _SortRowsByMarginalHelper._marginal"
    props = ("C08",)

    # public value reported for the keyword = g(blocks of this measure), g monotone increasing
    MEASURE = {
        "COLUMN_BASE_UNWEIGHTED": ("column_unweighted_bases", "id"),
        "COLUMN_BASE_WEIGHTED": ("column_weighted_bases", "id"),
        "COLUMN_INDEX": ("column_index", "id"),
        "COLUMN_PERCENT": ("column_proportions", "x100"),
        "COLUMN_PERCENT_MOE": ("column_std_err", "xZ100"),
        "COLUMN_SHARE_SUM": ("column_share_sum", "id"),
        "COLUMN_STDDEV": ("column_proportion_variances", "sqrt"),
        "COLUMN_STDERR": ("column_std_err", "id"),
        "MEAN": ("means", "id"),
        "POPULATION": ("population_proportions", "xpop"),
        "POPULATION_MOE": ("population_std_err", "xZpop"),
        "PVALUES": ("pvalues", "id"),
        "ROW_BASE_UNWEIGHTED": ("row_unweighted_bases", "id"),
        "ROW_BASE_WEIGHTED": ("row_weighted_bases", "id"),
        "ROW_PERCENT": ("row_proportions", "x100"),
        "ROW_PERCENT_MOE": ("row_std_err", "xZ100"),
        "ROW_SHARE_SUM": ("row_share_sum", "id"),
        "ROW_STDDEV": ("row_proportion_variances", "sqrt"),
        "ROW_STDERR": ("row_std_err", "id"),
        "STDDEV": ("stddev", "id"),
        "SUM": ("sums", "id"),
        "TABLE_PERCENT": ("table_proportions", "x100"),
        "TABLE_PERCENT_MOE": ("table_std_err", "xZ100"),
        "TABLE_STDDEV": ("table_proportion_variances", "sqrt"),
        "TABLE_STDERR": ("table_std_err", "id"),
        "TABLE_BASE_UNWEIGHTED": ("table_unweighted_bases", "id"),
        "TABLE_BASE_WEIGHTED": ("table_weighted_bases", "id"),
        "TOTAL_SHARE_SUM": ("total_share_sum", "id"),
        "UNWEIGHTED_COUNT": ("unweighted_counts", "id"),
        "UNWEIGHTED_VALID_COUNT": ("unweighted_counts", "id"),
        "WEIGHTED_COUNT": ("weighted_counts", "id"),
        "WEIGHTED_VALID_COUNT": ("weighted_counts", "id"),
        "Z_SCORE": ("zscores", "id"),
    }
    MARGINAL = {
        "BASE": "rows_unweighted_base",
        "MARGIN": "rows_weighted_base",
        "MARGIN_PROPORTION": "rows_table_proportion",
        "SCALE_MEAN": "rows_scale_mean",
        "SCALE_MEAN_STDDEV": "rows_scale_mean_stddev",
        "SCALE_MEAN_STDERR": "rows_scale_mean_stderr",
        "SCALE_MEDIAN": "rows_scale_median",
    }

    def configs(self):
        return [dict(part="tables"), dict(part="lemmas")]

    def run(self, B, cfg):
        if cfg["part"] == "lemmas":
            return self.lemmas(B)
        M = B.enum("enums:MEASURE")
        MG = B.enum("enums:MARGINAL")
        OF = B.enum("enums:ORDER_FORMAT")
        names = sorted(set(v[0] for v in self.MEASURE.values()) | set(self.MARGINAL.values()))
        sent = {n: object() for n in names}
        som = B.stub("second_order_measures", **sent)
        for helper in ("_SortRowsByBaseColumnHelper", "_SortColumnsByBaseRowHelper", "_SortRowsByInsertedColumnHelper",
                       "_SortColumnsByInsertedRowHelper", "_SortRowsByDerivedColumnHelper"):
            for member in M:
                spec_ = B.stub("order_spec", measure=member)
                dims = (B.stub("rows", order_spec=spec_), B.stub("cols", order_spec=spec_))
                h = B.new("matrix.assembler:" + helper, dims, som, OF.SIGNED_INDEXES)
                if member.name in self.MEASURE:
                    B.check("%s:%s" % (helper, member.name), h._measure is sent[self.MEASURE[member.name][0]])
                else:
                    try:
                        h._measure
                        B.check("%s:%s-unsupported" % (helper, member.name), False)
                    except NotImplementedError:
                        B.check("%s:%s-unsupported" % (helper, member.name), True)
        for member in MG:
            spec_ = B.stub("order_spec", marginal=member)
            dims = (B.stub("rows", order_spec=spec_), B.stub("cols"))
            h = B.new("matrix.assembler:_SortRowsByMarginalHelper", dims, som, OF.SIGNED_INDEXES)
            B.check("marginal:" + member.name, h._marginal is sent[self.MARGINAL[member.name]])

    def lemmas(self, B):
        """x <= y  =>  g(x) <= g(y) for every surrogate transform g used above"""
        x, y = B.real("x"), B.real("y")
        k = B.real("k")
        le = x <= y
        B.check("x100-monotone", B.bor(B.bnot(le), 100 * x <= 100 * y))
        B.check("xZ100-monotone", B.bor(B.bnot(le), 1.959964 * 100 * x <= 1.959964 * 100 * y))
        B.check("sqrt-monotone", B.bor(B.bnot(B.band(le, x >= 0)), B.sqrt(x) <= B.sqrt(y)))
        # population = proportion * (population * filtered fraction): monotone iff the
        # product is positive; order-neutral when it is zero (all values equal)
        B.check("xpop-monotone-for-positive-product", B.bor(B.bnot(B.band(le, k > 0)), k * x <= k * y))
        B.check("xpop-neutral-for-zero-product", B.bor(B.bnot(k == 0), B.feq(k * x, k * y)))

    def assumptions(self):
        return ["F9 (not decided): sort by population / population_moe with a negative or NaN population x fraction product "
                "is ordered by the proportions, not by the reported values"]


REGISTRY.append(SortKeywordTables())
