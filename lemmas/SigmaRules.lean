/-
  Machine-checked statements of the finite-sum rules the pvc engine trusts (A-SIGMA).

  pvc.sigma rewrites  np.sum  over a symbolic axis into an uninterpreted function of a
  canonical template, using the *equational* rules of section 1; pvc.run adds the
  *inequational* facts of section 2 on demand; pvc.symnp axiomatises boolean-mask counts
  (section 3) and strictly increasing index lists (section 4).  Each rule used by the Python
  code is stated here over ℝ and proved from Mathlib.  What remains trusted is that the
  Python implementation instantiates exactly these statements (see DESIGN.md, trusted base).

  Check:  lean lemmas/SigmaRules.lean     (exit 0, no output; no `sorry`, no axioms added)
-/
import Mathlib

open Finset BigOperators

namespace SigmaRules

/-! ## 1. equational rules (normaliser, pvc/sigma.py) -/

/-- linearity: binder-free factors leave the sum, sums of sums split -/
theorem sum_linear (n : ℕ) (a : ℝ) (f g : ℕ → ℝ) :
    ∑ k ∈ range n, (a * f k + g k) = a * ∑ k ∈ range n, f k + ∑ k ∈ range n, g k := by
  rw [sum_add_distrib, mul_sum]

/-- constant summand -/
theorem sum_const' (n : ℕ) (c : ℝ) : ∑ _k ∈ range n, c = n * c := by
  simp

/-- Fubini: nested sums become one multi-binder sum, binder order is irrelevant -/
theorem sum_fubini (n m : ℕ) (f : ℕ → ℕ → ℝ) :
    ∑ i ∈ range n, ∑ j ∈ range m, f i j = ∑ j ∈ range m, ∑ i ∈ range n, f i j :=
  sum_comm

/-- connected components: a summand that is a product of factors over disjoint binders
    splits into a product of sums -/
theorem sum_components (n m : ℕ) (f g : ℕ → ℝ) :
    ∑ i ∈ range n, ∑ j ∈ range m, f i * g j = (∑ i ∈ range n, f i) * (∑ j ∈ range m, g j) := by
  rw [sum_mul_sum]

/-- indicator form of a conditional summand -/
theorem ite_indicator (c : Prop) [Decidable c] (x y : ℝ) :
    (if c then x else y) = (if c then (1 : ℝ) else 0) * x + (1 - (if c then (1 : ℝ) else 0)) * y := by
  split_ifs <;> simp

/-- indicators are idempotent -/
theorem indicator_sq (c : Prop) [Decidable c] :
    (if c then (1 : ℝ) else 0) * (if c then (1 : ℝ) else 0) = (if c then (1 : ℝ) else 0) := by
  split_ifs <;> simp

/-- division as multiplication by an `inv` atom (only used where the divisor is non-zero) -/
theorem div_as_inv (x d : ℝ) : x / d = x * d⁻¹ := div_eq_mul_inv x d

/-- rational normal form equality used by the equality certificates: P₁/Q₁ = P₂/Q₂ follows
    from the polynomial identity P₁ Q₂ = P₂ Q₁ when both divisors are non-zero -/
theorem rat_eq_of_cross (p₁ q₁ p₂ q₂ : ℝ) (h₁ : q₁ ≠ 0) (h₂ : q₂ ≠ 0) (h : p₁ * q₂ = p₂ * q₁) :
    p₁ / q₁ = p₂ / q₂ := by
  rw [div_eq_div_iff h₁ h₂, h]

/-- expansions of small ranges (n = 0, 1, 2, 3) -/
theorem sum_range0 (f : ℕ → ℝ) : ∑ k ∈ range 0, f k = 0 := by simp
theorem sum_range1 (f : ℕ → ℝ) : ∑ k ∈ range 1, f k = f 0 := by simp
theorem sum_range2 (f : ℕ → ℝ) : ∑ k ∈ range 2, f k = f 0 + f 1 := by
  simp [sum_range_succ]
theorem sum_range3 (f : ℕ → ℝ) : ∑ k ∈ range 3, f k = f 0 + f 1 + f 2 := by
  simp [sum_range_succ]

/-- congruence: equal summands on the range give equal sums (template canonicalisation) -/
theorem sum_congr_range (n : ℕ) (f g : ℕ → ℝ) (h : ∀ k, k < n → f k = g k) :
    ∑ k ∈ range n, f k = ∑ k ∈ range n, g k :=
  sum_congr rfl (fun k hk => h k (mem_range.mp hk))

/-- NaN-skipping sum (`np.nansum`): an undefined term contributes 0 -/
theorem nansum_form (n : ℕ) (u : ℕ → Prop) [DecidablePred u] (v : ℕ → ℝ) :
    ∑ k ∈ range n, (if u k then 0 else v k) = ∑ k ∈ (range n).filter (fun k => ¬ u k), v k := by
  rw [sum_filter]
  apply sum_congr rfl
  intro k _
  by_cases h : u k <;> simp [h]

/-! ## 2. inequational facts (fact generators, pvc/run.py) -/

/-- non-negativity -/
theorem sum_nonneg' (n : ℕ) (f : ℕ → ℝ) (h : ∀ k, k < n → 0 ≤ f k) : 0 ≤ ∑ k ∈ range n, f k :=
  sum_nonneg (fun k hk => h k (mem_range.mp hk))

/-- every summand is at most the sum -/
theorem term_le_sum (n : ℕ) (f : ℕ → ℝ) (h : ∀ k, k < n → 0 ≤ f k) (j : ℕ) (hj : j < n) :
    f j ≤ ∑ k ∈ range n, f k :=
  single_le_sum (fun k hk => h k (mem_range.mp hk)) (mem_range.mpr hj)

/-- partial sums of a double sum -/
theorem inner_le_double (n m : ℕ) (f : ℕ → ℕ → ℝ) (h : ∀ i j, i < n → j < m → 0 ≤ f i j)
    (i : ℕ) (hi : i < n) :
    ∑ j ∈ range m, f i j ≤ ∑ i' ∈ range n, ∑ j ∈ range m, f i' j := by
  apply term_le_sum n (fun i' => ∑ j ∈ range m, f i' j) _ i hi
  intro k hk
  exact sum_nonneg (fun j hj => h k j hk (mem_range.mp hj))

/-- monotonicity: term-wise ordered summands -/
theorem sum_mono (n : ℕ) (f g : ℕ → ℝ) (h : ∀ k, k < n → f k ≤ g k) :
    ∑ k ∈ range n, f k ≤ ∑ k ∈ range n, g k :=
  sum_le_sum (fun k hk => h k (mem_range.mp hk))

/-- a sum of non-negative terms that is zero has only zero terms; a sum of zeros is zero -/
theorem sum_eq_zero_iff_nonneg (n : ℕ) (f : ℕ → ℝ) (h : ∀ k, k < n → 0 ≤ f k) :
    ∑ k ∈ range n, f k = 0 ↔ ∀ k, k < n → f k = 0 := by
  rw [sum_eq_zero_iff_of_nonneg (fun k hk => h k (mem_range.mp hk))]
  constructor
  · intro hz k hk; exact hz k (mem_range.mpr hk)
  · intro hz k hk; exact hz k (mem_range.mp hk)

/-! ## 3. strictly increasing index lists (addend / subtrahend / valid-element lists) -/

/-- A-SUBSUM: the sum over a strictly increasing index list into `[0, n)` of non-negative
    terms is bounded by the full sum -/
theorem subsum_le (n m : ℕ) (idx : ℕ → ℕ) (f : ℕ → ℝ)
    (hinc : ∀ a b, a < b → b < m → idx a < idx b) (hrange : ∀ a, a < m → idx a < n)
    (hf : ∀ k, k < n → 0 ≤ f k) :
    ∑ a ∈ range m, f (idx a) ≤ ∑ k ∈ range n, f k := by
  have hinj : Set.InjOn idx (range m : Set ℕ) := by
    intro a ha b hb hab
    have ha' : a < m := by simpa using ha
    have hb' : b < m := by simpa using hb
    rcases lt_trichotomy a b with h | h | h
    · exact absurd hab (ne_of_lt (hinc a b h hb'))
    · exact h
    · exact absurd hab.symm (ne_of_lt (hinc b a h ha'))
  rw [← sum_image hinj]
  apply sum_le_sum_of_subset_of_nonneg
  · intro k hk
    rcases mem_image.mp hk with ⟨a, ha, rfl⟩
    exact mem_range.mpr (hrange a (mem_range.mp ha))
  · intro k hk _
    exact hf k (mem_range.mp hk)

/-- pigeonhole: a strictly increasing list into `[0, n)` has length at most `n` -/
theorem increasing_length_le (n m : ℕ) (idx : ℕ → ℕ)
    (hinc : ∀ a b, a < b → b < m → idx a < idx b) (hrange : ∀ a, a < m → idx a < n) : m ≤ n := by
  have key : ∀ a, a < m → a ≤ idx a := by
    intro a
    induction a with
    | zero => intro _; exact Nat.zero_le _
    | succ a ih =>
      intro ha
      have h1 : a < m := Nat.lt_of_succ_lt ha
      have h2 := hinc a (a + 1) (Nat.lt_succ_self a) ha
      have h3 := ih h1
      omega
  by_contra hle
  have hlt : n < m := Nat.lt_of_not_le hle
  -- n < m: position n is in range and idx n ≥ n, contradicting idx n < n
  have h1 := key n hlt
  have h2 := hrange n hlt
  omega

/-! ## 4. boolean-mask counts (`arr[mask]`, `.size`) -/

/-- the number of selected positions is the sum of the indicators -/
theorem mask_count_eq_sum (n : ℕ) (mask : ℕ → Prop) [DecidablePred mask] :
    (((range n).filter mask).card : ℝ) = ∑ k ∈ range n, (if mask k then (1 : ℝ) else 0) := by
  rw [card_eq_sum_ones, sum_filter]
  push_cast
  rfl

/-- count bounds and the two axioms attached to a fresh count symbol:
    `0 ≤ cnt ≤ n`, a witness when `cnt > 0`, and every true position forces `cnt ≥ 1` -/
theorem mask_count_le (n : ℕ) (mask : ℕ → Prop) [DecidablePred mask] :
    ((range n).filter mask).card ≤ n := by
  calc ((range n).filter mask).card ≤ (range n).card := card_filter_le _ _
    _ = n := card_range n

theorem mask_count_pos_witness (n : ℕ) (mask : ℕ → Prop) [DecidablePred mask]
    (h : 0 < ((range n).filter mask).card) : ∃ w, w < n ∧ mask w := by
  rcases card_pos.mp h with ⟨w, hw⟩
  rcases mem_filter.mp hw with ⟨hr, hm⟩
  exact ⟨w, mem_range.mp hr, hm⟩

theorem mask_true_count_ge_one (n : ℕ) (mask : ℕ → Prop) [DecidablePred mask]
    (k : ℕ) (hk : k < n) (hm : mask k) : 1 ≤ ((range n).filter mask).card := by
  apply card_pos.mpr
  exact ⟨k, mem_filter.mpr ⟨mem_range.mpr hk, hm⟩⟩

/-- a reduction over the compressed axis is the guarded sum over the original positions -/
theorem masked_sum (n : ℕ) (mask : ℕ → Prop) [DecidablePred mask] (v : ℕ → ℝ) :
    ∑ k ∈ (range n).filter mask, v k = ∑ k ∈ range n, (if mask k then v k else 0) := by
  rw [sum_filter]

/-! ## 5. the signed merge and the variance identity (C04 / C11 spec algebra) -/

/-- three-term variance of the +1 / 0 / −1 indicator equals E[X²] − E[X]²
    (Np, Nn, Ni: weighted counts of the positive, negative and ignored respondents) -/
theorem three_term_variance (np nn ni : ℝ) (hN : np + nn + ni ≠ 0) :
    let nt := np + nn + ni
    let p := (np - nn) / nt
    (1 - p) ^ 2 * (np / nt) + (0 - p) ^ 2 * (ni / nt) + (-1 - p) ^ 2 * (nn / nt)
      = (np + nn) / nt - p ^ 2 := by
  intro nt p
  have hnt : nt ≠ 0 := hN
  have hp : p = (np - nn) / nt := rfl
  have hni : ni = nt - np - nn := by simp only [nt]; ring
  rw [hni]
  field_simp
  rw [hp]
  field_simp
  ring

/-- ordinary cell: p(1 − p) is the same identity with no negative respondents -/
theorem bernoulli_variance (np ni : ℝ) :
    let p := np / (np + ni)
    p * (1 - p) = np / (np + ni) - p ^ 2 := by
  intro p
  ring

end SigmaRules
