"""Shared state builders for contracts: dimension / subtotal collaborators cut at their
contracts (the callee contracts themselves are verified in dimension_c.py)."""
from pvc.harness import Contract  # noqa: F401


class SubtotalSpec:
    """Abstract view of the subtotals of one dimension: S subtotals, each with a strictly
    increasing addend index list and subtrahend index list into [0, n_elems)."""

    def __init__(self, B, name, n_elems, allow=True):
        self.B, self.name, self.n_elems = B, name, n_elems
        if not allow:
            self.S = 0
            self.seq = B.seq(0, lambda s: None, name + ".subtotals")
            self.add_at = self.sub_at = lambda s: None
            return
        self.S = B.size(name + ".S")
        self.add_at = B.idx_family(name + ".add", self.S, "n", n_elems)
        self.sub_at = B.idx_family(name + ".sub", self.S, "n", n_elems)
        self.seq = B.seq(self.S, self._stub, name + ".subtotals")
        # a subtotal survives the validity gauntlet only if it references at least one valid
        # element (contract of _Subtotals._iter_valid_subtotal_dicts, dimension_c.py)
        B.assume_each(self.S, lambda s: self.n_add(s) + self.n_sub(s) >= 1, name + "!s")

    def _stub(self, s):
        return self.B.stub(
            "%s.subtotal" % self.name,
            addend_idxs=self.add_at(s),
            subtrahend_idxs=self.sub_at(s),
        )

    # spec-side accessors
    def n_add(self, s):
        return self.B.length(self.add_at(s))

    def n_sub(self, s):
        return self.B.length(self.sub_at(s))

    def add(self, s, k):
        return self._at(self.add_at(s), k)

    def sub(self, s, k):
        return self._at(self.sub_at(s), k)

    def _at(self, lst, k):
        """k-th index of the list; position 0 as a placeholder when the (concrete-size) list is
        shorter -- every use is guarded by a condition on the list's length"""
        try:
            return self.B.idx_at(lst, k)
        except IndexError:
            return 0

    def signed_sum(self, s, f):
        """sum_{k in addends} f(k) - sum_{k in subtrahends} f(k)"""
        B = self.B
        return B.Sum(self.n_add(s), lambda k: f(self.add(s, k))) - B.Sum(
            self.n_sub(s), lambda k: f(self.sub(s, k))
        )

    def pos_sum(self, s, f):
        return self.B.Sum(self.n_add(s), lambda k: f(self.add(s, k)))

    def neg_sum(self, s, f):
        return self.B.Sum(self.n_sub(s), lambda k: f(self.sub(s, k)))

    def is_diff(self, s):
        return self.n_sub(s) > 0


def size_space_subtotals(prefix, max_s=2, max_len=2):
    sp = {prefix + ".S": list(range(0, max_s + 1))}
    for s in range(max_s):
        sp["%s.add.n[%d]" % (prefix, s)] = list(range(0, max_len + 1))
        sp["%s.sub.n[%d]" % (prefix, s)] = list(range(0, max_len + 1))
    return sp


def mk_dim(B, name, n_elems, dimension_type=None, subtotals=True, **extra):
    st = SubtotalSpec(B, name, n_elems, allow=subtotals)
    attrs = dict(subtotals=st.seq)
    if dimension_type is not None:
        attrs["dimension_type"] = dimension_type
    attrs.update(extra)
    return B.stub(name, **attrs), st


class CubeCountsIface:
    """Abstract interface of a _BaseCubeCounts object, as exported by the nine classes
    verified in matrix_cubemeasure_c.py (see `iface_*` obligations there):

      counts >= 0;  row_bases, column_bases >= counts;  table_bases >= row/column bases
      columns CAT  =>  rows_base[i] == row_bases[i, j] == sum_j counts[i, j],
                       rows_table_base[i] == table_bases[i, j]
      rows CAT     =>  mirror image;   both CAT => table_base == sum_ij counts
    All dependent tensors are built constructively from free non-negative ingredients so
    that the same description yields symbolic terms (P/B) and random concrete inputs (C).
    """

    def __init__(self, B, tag, R, C, rows_cat, cols_cat, diff_nans=False):
        self.B = B
        cnt = B.tensor(tag + ".counts", (R, C), nonneg=True)
        self.counts = cnt
        rd = B.rd
        if cols_cat:
            self.rows_base = B.spec_tensor((R,), lambda i: B.Sum(C, lambda j: rd(cnt, i, j)))
            self.row_bases = B.spec_tensor((R, C), lambda i, j: rd(self.rows_base, i))
        else:
            self.rows_base = None
            self.row_bases = B.tensor(tag + ".row_bases", (R, C), nonneg=True, ge=[cnt])
        if rows_cat:
            self.columns_base = B.spec_tensor((C,), lambda j: B.Sum(R, lambda i: rd(cnt, i, j)))
            self.column_bases = B.spec_tensor((R, C), lambda i, j: rd(self.columns_base, j))
        else:
            self.columns_base = None
            self.column_bases = B.tensor(tag + ".column_bases", (R, C), nonneg=True, ge=[cnt])
        self.table_base = None
        self.rows_table_base = None
        self.columns_table_base = None
        if rows_cat and cols_cat:
            tb = B.Sum(R, lambda i: B.Sum(C, lambda j: rd(cnt, i, j)))
            self.table_base = tb
            self.table_bases = B.spec_tensor((R, C), lambda i, j: tb)
            self.rows_table_base = B.spec_tensor((R,), lambda i: tb)
            self.columns_table_base = B.spec_tensor((C,), lambda j: tb)
        elif cols_cat:
            # each row item has its own table base: at least its row base and every column
            # base of the row
            col_sum = B.spec_tensor((R,), lambda i: B.Sum(C, lambda j: rd(self.column_bases, i, j)))
            self.rows_table_base = B.tensor(tag + ".rows_table_base", (R,), nonneg=True, ge=[col_sum])
            self.table_bases = B.spec_tensor((R, C), lambda i, j: rd(self.rows_table_base, i))
        elif rows_cat:
            row_sum = B.spec_tensor((C,), lambda j: B.Sum(R, lambda i: rd(self.row_bases, i, j)))
            self.columns_table_base = B.tensor(tag + ".columns_table_base", (C,), nonneg=True, ge=[row_sum])
            self.table_bases = B.spec_tensor((R, C), lambda i, j: rd(self.columns_table_base, j))
        else:
            self.table_bases = B.tensor(
                tag + ".table_bases", (R, C), nonneg=True, ge=[self.row_bases, self.column_bases]
            )
        self.diff_nans = diff_nans
        self.stub = B.stub(
            tag + "_cube_counts",
            counts=self.counts,
            row_bases=self.row_bases,
            column_bases=self.column_bases,
            table_bases=self.table_bases,
            rows_base=self.rows_base,
            columns_base=self.columns_base,
            rows_table_base=self.rows_table_base,
            columns_table_base=self.columns_table_base,
            table_base=self.table_base,
            diff_nans=diff_nans,
        )


PLAIN_TYPES = ("BINNED_NUMERIC", "CAT", "CA_CAT", "DATETIME", "LOGICAL", "TEXT")
OTHER_TYPES = PLAIN_TYPES + ("CA_SUBVAR", "NUM_ARRAY")


class SliceEnv:
    """State shared by the measure-level contracts: two dimensions with subtotals and the
    weighted / unweighted cube-count interfaces."""

    def __init__(self, B, rows_cat=True, cols_cat=True, rows_date=False, cols_date=False, diff_nans=False):
        self.B = B
        self.rows_cat, self.cols_cat = rows_cat, cols_cat
        DT = B.enum("enums:DIMENSION_TYPE")
        self.DT = DT
        self.R = R = B.size("R", lo=1)
        self.C = C = B.size("C", lo=1)
        # a dimension that is neither categorical-date nor multiple-response: any other type
        # a slice dimension can have (symbolic, so a type-specific branch in the code forks)
        rtype = (DT.CAT_DATE if rows_date else B.member("rows.dimension_type", "enums:DIMENSION_TYPE", OTHER_TYPES)) if rows_cat else DT.MR_SUBVAR
        ctype = (DT.CAT_DATE if cols_date else B.member("cols.dimension_type", "enums:DIMENSION_TYPE", OTHER_TYPES)) if cols_cat else DT.MR_SUBVAR
        self.rdim, self.rows = mk_dim(B, "rows", R, dimension_type=rtype, subtotals=rows_cat)
        self.cdim, self.cols = mk_dim(B, "cols", C, dimension_type=ctype, subtotals=cols_cat)
        self.dims = (self.rdim, self.cdim)
        self.w = CubeCountsIface(B, "w", R, C, rows_cat, cols_cat, diff_nans)
        self.u = CubeCountsIface(B, "u", R, C, rows_cat, cols_cat, diff_nans)
        self.cube_measures = B.stub(
            "cube_measures", weighted_cube_counts=self.w.stub, unweighted_cube_counts=self.u.stub
        )

    @staticmethod
    def size_space(rows_cat=True, cols_cat=True):
        sp = {"R": [1, 2, 3], "C": [1, 2, 3]}
        if rows_cat:
            sp.update(size_space_subtotals("rows"))
        if cols_cat:
            sp.update(size_space_subtotals("cols"))
        return sp

    CAT_CONFIGS = [dict(rc=rc, cc=cc) for rc in (True, False) for cc in (True, False)]
