#!/venv/bin/python
"""Regenerate MANIFEST.json from contracts/props.py (kept valid at all times)."""
import json, os, sys
ROOT = os.path.dirname(os.path.dirname(os.path.abspath(__file__)))
sys.path.insert(0, ROOT)
from contracts.props import CLAIMS, TRUST
PROPS = [json.loads(l) for l in open(os.path.join(ROOT, "properties.jsonl"))]


def main():
    checks = []
    for pid, (cat, ref, text, tech) in sorted(CLAIMS.items()):
        checks.append({
            "property_id": pid,
            "quick_cmd": "./check %s --tier quick" % pid,
            "thorough_cmd": "./check %s --tier thorough" % pid,
            "evidence_file": "evidence/%s.json" % pid,
            "replay_cmd_template": "./check --replay {path}",
            "engine": "pvc",
            "level_claimed": {"category": cat, "text": text, "design_ref": "DESIGN.md section " + ref},
            "level_note": TRUST,
            "technique": tech,
        })
    na = [{"property_id": p["id"], "reason": "not claimed"} for p in PROPS if p["id"] not in CLAIMS]
    m = {
        "version": 1,
        "setup_cmd": "/venv/bin/pip install --quiet --no-index --find-links /opt/veriftools/wheels --target /verif/.deps z3-solver && /venv/bin/python -m compileall -q /verif/pvc /verif/contracts",
        "hooks": {"guard": "CR_CUBE_VERIF", "enable": "none needed: the verifier re-reads /repo/src on every run; the repository is not instrumented",
                  "baseline_off_cmd": "cd /repo && /venv/bin/python -m pytest -ra -q -p no:cacheprovider --timeout=900 --continue-on-collection-errors",
                  "source_commits": [], "add_only": True},
        "engines": [{"name": "pvc", "path": "pvc/", "serves_properties": sorted(CLAIMS),
                     "kind_free_text": "contract-based deductive verifier: symbolic execution of the real function bodies over a numpy facade, sidecar contracts, z3 discharge; bounded stand-ins labelled B / E"}],
        "checks": checks,
        "not_applicable": na,
        "notes": "Genuine defects found by the checks are recorded in known_findings.json: status fixed = repaired by a fix: commit in /repo (suppresses nothing); status open = recorded, not repaired (DESIGN.md 6.1): the check prints KNOWN-FINDING for the named contract / configuration / obligation and still reports every other violation. Seeded breaking changes used to test the checks are under seeded/ (never committed to /repo). lemmas/SigmaRules.lean holds the Lean proofs of the finite-sum rules (re-checked in the thorough tier).",
    }
    json.dump(m, open(os.path.join(ROOT, "MANIFEST.json"), "w"), indent=1)
    print("MANIFEST: %d checks, %d not_applicable" % (len(checks), len(na)))


if __name__ == "__main__":
    main()
