"""Spec functions taken from the property statements (properties.jsonl), written once and
used both as postconditions of the functions that implement them and as the assumed
results of those functions when a caller is verified (modular cut).

Notation (DESIGN 5): T is the measure tensor of a 2-D slice already restricted to valid
elements.  Axes: row items [R], then -- if the rows dimension is MR -- its selection axis
[0 = selected, 1 = other], column items [C], then the column selection axis if MR.
Kinds: 'CAT' | 'MR' | 'ARR'.
"""

KINDS = ("CAT", "MR", "ARR")
PAIRS = [(r, c) for r in KINDS for c in KINDS]

CLASS_OF_PAIR = {
    ("MR", "MR"): "_MrXMrCubeCounts",
    ("MR", "ARR"): "_MrXArrCubeCounts",
    ("MR", "CAT"): "_MrXCatCubeCounts",
    ("ARR", "MR"): "_ArrXMrCubeCounts",
    ("ARR", "ARR"): "_ArrXArrCubeCounts",
    ("ARR", "CAT"): "_ArrXCatCubeCounts",
    ("CAT", "MR"): "_CatXMrCubeCounts",
    ("CAT", "ARR"): "_CatXArrCubeCounts",
    ("CAT", "CAT"): "_CatXCatCubeCounts",
}


def tensor_shape(rk, ck, R, C):
    sh = [R]
    if rk == "MR":
        sh.append(2)
    sh.append(C)
    if ck == "MR":
        sh.append(2)
    return tuple(sh)


def t_at(B, T, rk, ck, i, si, j, sj):
    idx = [i]
    if rk == "MR":
        idx.append(si)
    idx.append(j)
    if ck == "MR":
        idx.append(sj)
    return B.rd(T, *idx)


def over_cols(B, ck, C, j, f):
    """sum f(j', s') over the column-side states a respondent eligible for the row
    proportion of cell (., j) can be in: any category (CAT), selected or other on item j
    (MR), the item itself (ARR)."""
    if ck == "CAT":
        return B.Sum(C, lambda j2: f(j2, 0))
    if ck == "MR":
        return f(j, 0) + f(j, 1)
    return f(j, 0)


def over_rows(B, rk, R, i, f):
    if rk == "CAT":
        return B.Sum(R, lambda i2: f(i2, 0))
    if rk == "MR":
        return f(i, 0) + f(i, 1)
    return f(i, 0)


def count(B, T, rk, ck, i, j):
    """respondents belonging to row element i and column element j (MR: selected)"""
    return t_at(B, T, rk, ck, i, 0, j, 0)


def row_base(B, T, rk, ck, R, C, i, j):
    """members of row element i with a valid answer on the column dimension (item j)"""
    return over_cols(B, ck, C, j, lambda j2, sj: t_at(B, T, rk, ck, i, 0, j2, sj))


def column_base(B, T, rk, ck, R, C, i, j):
    return over_rows(B, rk, R, i, lambda i2, si: t_at(B, T, rk, ck, i2, si, j, 0))


def table_base(B, T, rk, ck, R, C, i, j):
    return over_rows(
        B, rk, R, i,
        lambda i2, si: over_cols(B, ck, C, j, lambda j2, sj: t_at(B, T, rk, ck, i2, si, j2, sj)),
    )


def rows_pruning_base(B, T, rk, ck, R, C, i):
    """C09: eligible unweighted respondents of row vector i over the opposing dimension;
    an MR item counts selected + not-selected answers except against another MR."""
    if rk == "MR" and ck == "MR":
        return B.Sum(C, lambda j: t_at(B, T, rk, ck, i, 0, j, 0) + t_at(B, T, rk, ck, i, 0, j, 1))
    if rk == "MR":
        return B.Sum(C, lambda j: t_at(B, T, rk, ck, i, 0, j, 0) + t_at(B, T, rk, ck, i, 1, j, 0))
    return B.Sum(C, lambda j: row_base(B, T, rk, ck, R, C, i, j))


def columns_pruning_base(B, T, rk, ck, R, C, j):
    if rk == "MR" and ck == "MR":
        return B.Sum(R, lambda i: t_at(B, T, rk, ck, i, 0, j, 0) + t_at(B, T, rk, ck, i, 1, j, 0))
    if ck == "MR":
        return B.Sum(R, lambda i: t_at(B, T, rk, ck, i, 0, j, 0) + t_at(B, T, rk, ck, i, 0, j, 1))
    return B.Sum(R, lambda i: column_base(B, T, rk, ck, R, C, i, j))


# =======================================================================================
# measure-level block specs (statements of C02 / C03 / C04 / C11 / C12), over the abstract
# cube-count interface `cc` (contracts.common.CubeCountsIface) and the SubtotalSpec of each
# dimension.  A "blocks spec" is a 2x2 nested list of spec tensors:
#   [0][0] base cells (R, C)        [0][1] column subtotals (R, SC)
#   [1][0] row subtotals (SR, C)    [1][1] intersections (SR, SC)


def blocks_from(B, env, f00, f01, f10, f11):
    R, C, SR, SC = env.R, env.C, env.rows.S, env.cols.S
    return [
        [B.spec_tensor((R, C), f00), B.spec_tensor((R, SC), f01)],
        [B.spec_tensor((SR, C), f10), B.spec_tensor((SR, SC), f11)],
    ]


def count_blocks(B, env, cc):
    """C04: signed merge of counts; valid-count responses (diff_nans) give NaN differences"""
    rows, cols, cnt, dn = env.rows, env.cols, cc.counts, cc.diff_nans
    rd = B.rd

    def f01(i, t):
        return B.ite(B.band(dn, cols.is_diff(t)), B.NaN(), cols.signed_sum(t, lambda j: rd(cnt, i, j)))

    def f10(s, j):
        return B.ite(B.band(dn, rows.is_diff(s)), B.NaN(), rows.signed_sum(s, lambda i: rd(cnt, i, j)))

    def f11(s, t):
        nan = B.bor(
            B.band(rows.is_diff(s), cols.is_diff(t)),
            B.band(dn, B.bor(rows.is_diff(s), cols.is_diff(t))),
        )
        return B.ite(
            nan, B.NaN(), cols.signed_sum(t, lambda j: rows.signed_sum(s, lambda i: rd(cnt, i, j)))
        )

    return blocks_from(B, env, lambda i, j: rd(cnt, i, j), f01, f10, f11)


def row_base_blocks(B, env, cc):
    """C02/C04: a row subtotal merges row categories so its row base is the sum of theirs
    (NaN for a difference: own direction); a column subtotal leaves the row's base alone."""
    rows, rb = env.rows, cc.row_bases
    rd = B.rd

    def f10(s, j):
        return B.ite(rows.is_diff(s), B.NaN(), rows.pos_sum(s, lambda i: rd(rb, i, j)))

    def f11(s, t):
        return B.ite(rows.is_diff(s), B.NaN(), rows.pos_sum(s, lambda i: rd(cc.rows_base, i)))

    return blocks_from(
        B, env, lambda i, j: rd(rb, i, j), lambda i, t: rd(cc.rows_base, i), f10, f11
    )


def column_base_blocks(B, env, cc):
    cols, cb = env.cols, cc.column_bases
    rd = B.rd

    def f01(i, t):
        return B.ite(cols.is_diff(t), B.NaN(), cols.pos_sum(t, lambda j: rd(cb, i, j)))

    def f11(s, t):
        return B.ite(cols.is_diff(t), B.NaN(), cols.pos_sum(t, lambda j: rd(cc.columns_base, j)))

    return blocks_from(
        B, env, lambda i, j: rd(cb, i, j), f01, lambda s, j: rd(cc.columns_base, j), f11
    )


def table_base_blocks(B, env, cc):
    """merging categories never changes who is eligible for the table proportion"""
    tb = cc.table_bases
    rd = B.rd
    return blocks_from(
        B, env,
        lambda i, j: rd(tb, i, j),
        lambda i, t: rd(cc.rows_table_base, i),
        lambda s, j: rd(cc.columns_table_base, j),
        lambda s, t: cc.table_base,
    )


def quotient_blocks(B, env, num, den):
    def q(a, b):
        return lambda x, y: B.rd(num[a][b], x, y) / B.rd(den[a][b], x, y)

    return blocks_from(B, env, q(0, 0), q(0, 1), q(1, 0), q(1, 1))


def wave_multi(st, s):
    """C04: a categorical-date difference 'with several terms on either side'"""
    B = st.B
    return B.band(st.is_diff(s), B.bor(st.n_sub(s) > 1, st.n_add(s) > 1))


def proportion_blocks(B, env, cc, direction):
    """C03 + the categorical-date wave-difference rule of C04.
    direction: 'row' | 'column' | 'table'."""
    cnt_b = count_blocks(B, env, cc)
    base_b = {"row": row_base_blocks, "column": column_base_blocks, "table": table_base_blocks}[
        direction
    ](B, env, cc)
    q = quotient_blocks(B, env, cnt_b, base_b)
    if direction == "table":
        return q
    rows, cols = env.rows, env.cols
    base = cc.row_bases if direction == "row" else cc.column_bases
    cnt = cc.counts
    rd = B.rd
    DT = env.DT
    rows_date = env.rdim.dimension_type == DT.CAT_DATE
    cols_date = env.cdim.dimension_type == DT.CAT_DATE

    def f01(i, t):
        default = rd(q[0][1], i, t)
        if not cols_date:
            return default
        a, b = cols.add(t, 0), cols.sub(t, 0)
        wave = rd(cnt, i, a) / rd(base, i, a) - rd(cnt, i, b) / rd(base, i, b)
        wave = B.ite(cols.n_add(t) == 0, B.NaN(), wave)  # percentage of an empty merge: 0/0
        return B.ite(cols.is_diff(t), B.ite(wave_multi(cols, t), B.NaN(), wave), default)

    def f10(s, j):
        default = rd(q[1][0], s, j)
        if not rows_date:
            return default
        a, b = rows.add(s, 0), rows.sub(s, 0)
        wave = rd(cnt, a, j) / rd(base, a, j) - rd(cnt, b, j) / rd(base, b, j)
        wave = B.ite(rows.n_add(s) == 0, B.NaN(), wave)  # percentage of an empty merge: 0/0
        return B.ite(rows.is_diff(s), B.ite(wave_multi(rows, s), B.NaN(), wave), default)

    return [
        [q[0][0], B.spec_tensor((env.R, cols.S), f01)],
        [B.spec_tensor((rows.S, env.C), f10), q[1][1]],
    ]


# ---- C11 -------------------------------------------------------------------------------


def positive_blocks(B, env, cc):
    """weighted count of respondents with indicator +1 (members of the addends)"""
    rows, cols, cnt = env.rows, env.cols, cc.counts
    rd = B.rd

    def f11(s, t):
        return B.ite(
            B.band(rows.is_diff(s), cols.is_diff(t)),
            B.NaN(),
            cols.pos_sum(t, lambda j: rows.pos_sum(s, lambda i: rd(cnt, i, j))),
        )

    return blocks_from(
        B, env,
        lambda i, j: rd(cnt, i, j),
        lambda i, t: cols.pos_sum(t, lambda j: rd(cnt, i, j)),
        lambda s, j: rows.pos_sum(s, lambda i: rd(cnt, i, j)),
        f11,
    )


def negative_blocks(B, env, cc):
    """weighted count of respondents with indicator -1 (members of the subtrahends)"""
    rows, cols, cnt = env.rows, env.cols, cc.counts
    rd = B.rd

    def f11(s, t):
        both = B.band(rows.is_diff(s), cols.is_diff(t))
        col_neg = cols.neg_sum(t, lambda j: rows.pos_sum(s, lambda i: rd(cnt, i, j)))
        row_neg = rows.neg_sum(s, lambda i: cols.pos_sum(t, lambda j: rd(cnt, i, j)))
        return B.ite(both, B.NaN(), B.ite(cols.is_diff(t), col_neg, B.ite(rows.is_diff(s), row_neg, 0.0)))

    return blocks_from(
        B, env,
        lambda i, j: 0.0,
        lambda i, t: cols.neg_sum(t, lambda j: rd(cnt, i, j)),
        lambda s, j: rows.neg_sum(s, lambda i: rd(cnt, i, j)),
        f11,
    )


def variance_blocks(B, env, cc, direction):
    """C11: Var of the +1/-1/0 indicator among the respondents of the base:
    E[X^2] - E[X]^2 = (Np+Nn)/Nt - ((Np-Nn)/Nt)^2 ; NaN where the proportion or the base
    is undefined."""
    p = proportion_blocks(B, env, cc, direction)
    Nt = {"row": row_base_blocks, "column": column_base_blocks, "table": table_base_blocks}[
        direction
    ](B, env, cc)
    Np, Nn = positive_blocks(B, env, cc), negative_blocks(B, env, cc)

    def cell(a, b):
        def f(x, y):
            np_, nn, nt = B.rd(Np[a][b], x, y), B.rd(Nn[a][b], x, y), B.rd(Nt[a][b], x, y)
            pv = B.rd(p[a][b], x, y)
            ex2 = (np_ + nn) / nt
            ex = (np_ - nn) / nt
            return B.ite(B.isnan(pv), B.NaN(), ex2 - ex * ex)

        return f

    return blocks_from(B, env, cell(0, 0), cell(0, 1), cell(1, 0), cell(1, 1))


def stderr_blocks(B, env, cc, direction):
    """C11: standard error = sqrt(variance / weighted base)"""
    var = variance_blocks(B, env, cc, direction)
    Nt = {"row": row_base_blocks, "column": column_base_blocks, "table": table_base_blocks}[
        direction
    ](B, env, cc)

    def cell(a, b):
        return lambda x, y: B.sqrt(B.rd(var[a][b], x, y) / B.rd(Nt[a][b], x, y))

    return blocks_from(B, env, cell(0, 0), cell(0, 1), cell(1, 0), cell(1, 1))


# ---- C12 -------------------------------------------------------------------------------


def zscore_cell(B, n, r, c, N):
    """adjusted standardized residual from the cell's own count, row, column, table base"""
    e = r * c / N
    return (n - e) / B.sqrt(e * (1 - r / N) * (1 - c / N))


def zscore_blocks(B, env, cc, defective):
    cnt_b = count_blocks(B, env, cc)
    rb, cb, tb = row_base_blocks(B, env, cc), column_base_blocks(B, env, cc), table_base_blocks(B, env, cc)

    def cell(a, b):
        def f(x, y):
            z = zscore_cell(
                B, B.rd(cnt_b[a][b], x, y), B.rd(rb[a][b], x, y), B.rd(cb[a][b], x, y), B.rd(tb[a][b], x, y)
            )
            return B.ite(defective, B.NaN(), z)

        return f

    return blocks_from(B, env, cell(0, 0), cell(0, 1), cell(1, 0), cell(1, 1))


def pvalue_blocks(B, env, z_blocks):
    def cell(a, b):
        return lambda x, y: 2 * (1 - B.Phi(abs(B.rd(z_blocks[a][b], x, y))))

    return blocks_from(B, env, cell(0, 0), cell(0, 1), cell(1, 0), cell(1, 1))


# ---- C15 share of sum -------------------------------------------------------------------


def nz(B, x):
    return B.ite(B.isnan(x), 0.0, x)


def sum_measure_blocks(B, env, S):
    """sum measure with subtotals: signed merges, NaN for differences (both directions)"""
    from .matrix_subtotals_c import sum_blocks_spec

    return sum_blocks_spec(B, S, env.R, env.C, env.rows, env.cols, True, True)


def share_sum_blocks(B, env, S, direction):
    """C15: every share divides by the total of the cell's row vector / column vector / the
    whole table, each total taken over *base* rows and columns only."""
    sb = sum_measure_blocks(B, env, S)
    R, C = env.R, env.C
    rd = B.rd

    def row_total(a, x):  # x: base row i (a=0) or row subtotal s (a=1): total over base columns
        return B.Sum(C, lambda j: nz(B, rd(sb[a][0], x, j)))

    def col_total(b, y):
        return B.Sum(R, lambda i: nz(B, rd(sb[0][b], i, y)))

    table_total = B.Sum(R, lambda i: B.Sum(C, lambda j: nz(B, rd(S, i, j))))

    def cell(a, b):
        def f(x, y):
            v = rd(sb[a][b], x, y)
            if direction == "row":
                return v / row_total(a, x)
            if direction == "column":
                return v / col_total(b, y)
            return v / table_total

        return f

    return blocks_from(B, env, cell(0, 0), cell(0, 1), cell(1, 0), cell(1, 1))


# ---- C14 scale statistics ---------------------------------------------------------------


def scale_blocks(B, env, cc, values, orientation, what, means=None, counts=None):
    """respondent-level statistics of the opposing dimension's numeric values per vector:
    'mean'  = sum_D v c / sum_D c
    'sd'    = sqrt( sum_D c (v - mean)^2 / sum_D c )        (population standard deviation)
    D = categories with a numeric value.  Vectors: base rows then row subtotals (orientation
    'rows'), base columns then column subtotals ('columns').  A difference subtotal has no
    base in its own direction: NaN."""
    rows, cols = env.rows, env.cols
    rd = B.rd
    if counts is not None:
        # the comparable-count blocks as delivered by their own contract (opaque here): block 0
        # base vectors, block 1 subtotal vectors; a difference vector arrives as NaN counts
        no = lambda x: False
        if orientation == "rows":
            n_opp = env.C
            vec_blocks = [(env.R, lambda i, j: rd(counts[0], i, j), no), (rows.S, lambda s, j: rd(counts[1], s, j), no)]
        else:
            n_opp = env.R
            vec_blocks = [(env.C, lambda j, i: rd(counts[0], i, j), no), (cols.S, lambda t, i: rd(counts[1], i, t), no)]
    elif orientation == "rows":
        cnt_b = count_blocks(B, env, cc)
        n_opp = env.C
        vec_blocks = [(env.R, lambda i, j: rd(cnt_b[0][0], i, j), lambda i: False),
                      (rows.S, lambda s, j: rd(cnt_b[1][0], s, j), lambda s: rows.is_diff(s))]
    else:
        cnt_b = count_blocks(B, env, cc)
        n_opp = env.R
        vec_blocks = [(env.C, lambda j, i: rd(cnt_b[0][0], i, j), lambda j: False),
                      (cols.S, lambda t, i: rd(cnt_b[0][1], i, t), lambda t: cols.is_diff(t))]

    def has_value(k):
        return B.bnot(B.isnan(rd(values, k)))

    out = []
    for bi, (n_vec, c, isdiff) in enumerate(vec_blocks):
        def stat(x, c=c, isdiff=isdiff, bi=bi):
            den = B.Sum(n_opp, lambda k: B.ite(has_value(k), c(x, k), 0.0))
            if means is not None:
                mean = rd(means[bi], x)  # the scale mean as delivered by its own contract
            else:
                num = B.Sum(n_opp, lambda k: B.ite(has_value(k), rd(values, k) * c(x, k), 0.0))
                mean = num / den
            if what == "mean":
                r = mean
            else:
                ss = B.Sum(n_opp, lambda k: B.ite(has_value(k), c(x, k) * (rd(values, k) - mean) * (rd(values, k) - mean), 0.0))
                r = B.sqrt(ss / den)
            return B.ite(isdiff(x), B.NaN(), r)

        out.append(B.spec_tensor((n_vec,), stat))
    return out


# ---- C13 pairwise column tests -------------------------------------------------------------


def tstat_cell(B, p, n, pa, na):
    """t = (p_b - p_a) / sqrt(|p_a(1-p_a)/n_a + p_b(1-p_b)/n_b|)   (b = this column, a =
    selected column; the absolute value only matters for subtotal differences, where the
    statement's radicand can be negative)"""
    var = p * (1.0 - p) / n + pa * (1.0 - pa) / na
    return (p - pa) / B.sqrt(abs(var))


# =======================================================================================
# strands (1-D partitions; cr.cube.stripe).  T is the measure tensor of the strand already
# restricted to valid elements: (R,) for a categorical or numeric-array rows dimension,
# (R, 2) = [selected, other] for a multiple-response one.  A "blocks spec" of a strand is the
# pair [base values (R,), subtotal values (S,)].
SKINDS = ("CAT", "MR", "ARR")
STRIPE_COUNTS_CLASS = {"CAT": "_CatCubeCounts", "MR": "_MrCubeCounts", "ARR": "_NumArrCubeCounts"}


def s_shape(kind, R):
    return (R, 2) if kind == "MR" else (R,)


def s_count(B, T, kind, i):
    """respondents belonging to row element i (MR: who selected item i)"""
    return B.rd(T, i, 0) if kind == "MR" else B.rd(T, i)


def s_base(B, T, kind, R, i):
    """respondents eligible for the table proportion of row i: any valid category (CAT),
    non-missing on item i (MR: selected or other), the item's valid count (numeric array)"""
    if kind == "CAT":
        return B.Sum(R, lambda k: B.rd(T, k))
    if kind == "MR":
        return B.rd(T, i, 0) + B.rd(T, i, 1)
    return B.rd(T, i)


def s_pruning_base(B, T, kind, R, i):
    """C09: a categorical row is empty iff nobody is in it; an MR item that was answered but
    never selected is not empty"""
    if kind == "MR":
        return B.rd(T, i, 0) + B.rd(T, i, 1)
    return B.rd(T, i)


def s_pair(B, env, f0, f1):
    return [B.spec_tensor((env.R,), f0), B.spec_tensor((env.rows.S,), f1)]


def s_count_blocks(B, env, cc, diff_nans=False):
    """C04 for a strand: signed merge; in a valid-count response a difference is NaN"""
    rows, cnt = env.rows, cc.counts

    def f1(s):
        v = rows.signed_sum(s, lambda i: B.rd(cnt, i))
        return B.ite(B.band(diff_nans, rows.is_diff(s)), B.NaN(), v) if diff_nans is not False else v

    return s_pair(B, env, lambda i: B.rd(cnt, i), f1)


def s_base_blocks(B, env, cc):
    """merging (or subtracting) categories never changes who answered the question: every
    subtotal has the table base"""
    return s_pair(B, env, lambda i: B.rd(cc.bases, i), lambda s: cc.table_base)


def s_proportion_blocks(B, env, cc):
    """C03 for a strand + the categorical-date rule of C04: a difference with several terms on
    either side is NaN; a one-minus-one difference is the difference of the two percentages
    (both over the table base, hence the signed count over the table base)"""
    rows, cnt = env.rows, cc.counts

    def f1(s):
        p = rows.signed_sum(s, lambda i: B.rd(cnt, i)) / cc.table_base
        if env.date:
            return B.ite(wave_multi(rows, s), B.NaN(), p)
        return p

    return s_pair(B, env, lambda i: B.rd(cnt, i) / B.rd(cc.bases, i), f1)


def s_variance_blocks(B, env, cc):
    """C11 for a strand: weighted variance, among the respondents of the table base, of the
    indicator +1 on the addends, -1 on the subtrahends, 0 elsewhere: E[X^2] - E[X]^2; NaN
    wherever the proportion is"""
    rows, cnt = env.rows, cc.counts
    p_b = s_proportion_blocks(B, env, cc)

    def f0(i):
        p = B.rd(p_b[0], i)
        return p * (1 - p)

    def f1(s):
        nt = cc.table_base
        ex2 = (rows.pos_sum(s, lambda i: B.rd(cnt, i)) + rows.neg_sum(s, lambda i: B.rd(cnt, i))) / nt
        p = B.rd(p_b[1], s)
        return ex2 - p * p

    return s_pair(B, env, f0, f1)


def s_share_blocks(B, env, sums):
    """C15 for a strand: sum over the total of the base rows (unavailable sums skipped in the
    total), for base rows and subtotals alike"""
    rows = env.rows
    total = B.Sum(env.R, lambda k: B.ite(B.isnan(B.rd(sums, k)), 0.0, B.rd(sums, k)))
    return s_pair(
        B, env,
        lambda i: B.rd(sums, i) / total,
        lambda s: rows.signed_sum(s, lambda i: B.rd(sums, i)) / total,
    )
