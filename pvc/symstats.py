"""Uninterpreted scipy.stats cdfs with axioms A-CDF (DESIGN 4).

norm.cdf(x)      : Phi(x)  in [0,1], Phi(0) = 1/2, monotone, Phi(-x) = 1 - Phi(x)
t.cdf(x, df=d)   : F(x, d) in [0,1], F(0,d) = 1/2, F(-x,d) = 1 - F(x,d), monotone in x
NaN-propagating; df <= 0 or undefined df gives NaN (scipy returns nan for df <= 0).
The axioms are added as instances for the argument terms that actually occur.
"""
import z3

from . import core, symnp
from .core import SFloat, ctx, zr, b_or, raw

_PHI = z3.Function("Phi", z3.RealSort(), z3.RealSort())
_TCDF = z3.Function("Tcdf", z3.RealSort(), z3.RealSort(), z3.RealSort())


def _inst_phi(c, x):
    seen = c.__dict__.setdefault("_fn_seen", set())
    key = ("phi", x.get_id())
    if key in seen:
        return
    seen.add(key)
    p = _PHI(x)
    c.fn_axioms.append(z3.And(p >= 0, p <= 1))
    c.fn_axioms.append(z3.Implies(x >= 0, p * 2 >= 1))
    c.fn_axioms.append(z3.Implies(x <= 0, p * 2 <= 1))
    c.fn_axioms.append(z3.Implies(x == 0, p * 2 == 1))
    c.fn_axioms.append(_PHI(-x) == 1 - p)
    lst = c.__dict__.setdefault("_phi_args", [])
    for y in lst:
        c.fn_axioms.append(z3.Implies(x <= y, _PHI(x) <= _PHI(y)))
        c.fn_axioms.append(z3.Implies(y <= x, _PHI(y) <= _PHI(x)))
    lst.append(x)


def _inst_t(c, x, d):
    seen = c.__dict__.setdefault("_fn_seen", set())
    key = ("tcdf", x.get_id(), d.get_id())
    if key in seen:
        return
    seen.add(key)
    p = _TCDF(x, d)
    c.fn_axioms.append(z3.And(p >= 0, p <= 1))
    c.fn_axioms.append(z3.Implies(x >= 0, p * 2 >= 1))
    c.fn_axioms.append(z3.Implies(x <= 0, p * 2 <= 1))
    c.fn_axioms.append(z3.Implies(x == 0, p * 2 == 1))
    c.fn_axioms.append(_TCDF(-x, d) == 1 - p)
    lst = c.__dict__.setdefault("_t_args", [])
    for (y, e) in lst:
        c.fn_axioms.append(z3.Implies(z3.And(d == e, x <= y), _TCDF(x, d) <= _TCDF(y, e)))
        c.fn_axioms.append(z3.Implies(z3.And(d == e, y <= x), _TCDF(y, e) <= _TCDF(x, d)))
    lst.append((x, d))


class _Norm:
    @staticmethod
    def cdf(x):
        def f(v, _):
            v = symnp.to_f(v)
            if v.u is True:
                return SFloat(True, 0)
            xv = zr(v.v)
            _inst_phi(ctx(), xv)
            return SFloat(v.u, _PHI(xv))

        if isinstance(x, symnp.STensor):
            return symnp.elementwise(f, x, 0, kind="f")
        return f(symnp._rawsc(x), 0)


class _T:
    @staticmethod
    def cdf(x, df=None):
        def f(v, d):
            v, d = symnp.to_f(v), symnp.to_f(d if symnp.kind_of(d) != "b" else symnp.to_i(d))
            if v.u is True or d.u is True:
                return SFloat(True, 0)
            xv, dv = zr(v.v), zr(d.v)
            _inst_t(ctx(), xv, dv)
            return SFloat(b_or(v.u, d.u, dv <= 0), _TCDF(xv, dv))

        if isinstance(x, symnp.STensor) or isinstance(df, symnp.STensor):
            return symnp.elementwise(f, x, df, kind="f")
        return f(symnp._rawsc(x), symnp._rawsc(df))


norm = _Norm()
t = _T()
