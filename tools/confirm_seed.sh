#!/bin/sh
# usage: tools/confirm_seed.sh <worktree> <property id> [name]
# confirms in the scratch worktree: patch applies, suite passes (1 pre-existing failure), demo fails with / passes without
wt=$1; id=$2; name=${3:-$id}; d=$wt/seeded/$id
cd $wt && git checkout -q -- src && git apply $d/patch.diff || { echo "APPLY-FAILED"; exit 9; }
t=$(./py -m pytest -q -p no:cacheprovider tests 2>&1 | tail -1)
./py $d/demo.py > /tmp/demo_with.txt 2>&1; w=$?
git checkout -q -- src
./py $d/demo.py > /tmp/demo_without.txt 2>&1; wo=$?
echo "$id: tests[$t] demo-with-change=$w demo-without=$wo"
if [ "$w" != "0" ] && [ "$wo" = "0" ]; then
  mkdir -p /verif/seeded/$name && cp $d/patch.diff $d/demo.py $d/meta.json /verif/seeded/$name/ && echo "$t | demo with change: exit $w | demo without: exit $wo" > /verif/seeded/$name/confirmed.txt
  echo "KEPT $name"
fi
