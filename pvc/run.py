"""Run contracts: explore paths, discharge obligations, concretise + replay failures."""
import itertools
import re
import json
import os
import random
import time
import traceback
from fractions import Fraction

import z3

from . import core, harness, symnp
from . import sigma as sg
from .core import OutOfReach, PathInfeasible, TooManyPaths
from .harness import ConcreteBackend, OutOfContract, SymBackend

TIMEOUT_MS = int(os.environ.get("PVC_TIMEOUT_MS", "60000"))  # last-stage wall-clock budget
STAGE_MS = int(os.environ.get("PVC_STAGE_MS", "8000"))  # early-stage wall-clock budget
RLIMIT = int(os.environ.get("PVC_RLIMIT", "2000000000"))
SLOW_TASK_S = float(os.environ.get("PVC_SLOW_TASK_S", "200"))
MONOTONE_WALL_S = float(os.environ.get("PVC_MONOTONE_WALL_S", "45"))  # per obligation
QUICK_RLIMIT = int(os.environ.get("PVC_QUICK_RLIMIT", "2500000"))


class ObResult:
    def __init__(self, name, status, secs, kind="post", detail=None, tier="P", smt=None):
        self.name, self.status, self.secs, self.kind = name, status, secs, kind
        self.detail = detail
        self.tier = tier
        self.smt = smt

    def as_dict(self):
        return dict(
            name=self.name, status=self.status, secs=round(self.secs, 4), kind=self.kind,
            detail=self.detail, tier=self.tier,
        )


def _mk_solver(ob, axioms, timeout_ms):
    s = z3.Solver()
    s.set("timeout", timeout_ms)
    s.set("smt.mbqi", False)
    if RLIMIT:
        s.set("rlimit", RLIMIT)
    for h in ob.hyps:
        s.add(h)
    for a in axioms:
        s.add(a)
    s.add(z3.Not(ob.goal))
    return s


def _quick_solver(ob, axioms, timeout_ms=400, qf_only=False):
    """solver for the small side queries of the fact generators.  Budgets are z3 resource
    units (deterministic), the wall-clock timeout only guards against hangs."""
    s = z3.Solver()
    s.set("timeout", 20000)
    s.set("rlimit", QUICK_RLIMIT * max(1, timeout_ms // 400))
    s.set("smt.mbqi", False)
    for h in ob.hyps:
        if qf_only and z3.is_quantifier(h):
            continue
        s.add(h)
    for a in axioms:
        if qf_only and z3.is_quantifier(a):
            continue
        s.add(a)
    return s


def _collect_sigma_apps(exprs, limit=60):
    reg = sg.sigma_registry()
    found, seen = {}, set()
    stack = list(exprs)
    while stack:
        t = stack.pop()
        tid = t.get_id()
        if tid in seen:
            continue
        seen.add(tid)
        if z3.is_app(t):
            if t.decl().kind() == z3.Z3_OP_UNINTERPRETED and t.decl().name() in reg:
                # only ground applications (no quantifier-bound vars)
                found[tid] = t
                if len(found) >= limit:
                    break
            stack.extend(t.children())
        elif z3.is_quantifier(t):
            pass
    return list(found.values())


def _has_var(t):
    stack = [t]
    seen = set()
    while stack:
        x = stack.pop()
        if x.get_id() in seen:
            continue
        seen.add(x.get_id())
        if z3.is_var(x):
            return True
        if z3.is_app(x):
            stack.extend(x.children())
    return False


class _FakeCtx:
    def __init__(self):
        self.n = 0

    def fresh_int(self, base="k"):
        self.n += 1
        return z3.Int("%s!sf%d" % (base, self.n))

    def fresh(self, base):
        self.n += 1
        return "%s!sf%d" % (base, self.n)


def _monotone_facts(ob, axioms, apps, fc):
    """Sum monotonicity (lemmas/SigmaRules.lean: sum_le_sum): two sums over the same
    ranges whose summands are ordered term-wise are ordered."""
    import itertools as _it

    facts = []
    groups = {}
    t_end = time.time() + MONOTONE_WALL_S  # wall-clock guard: a partial fact list is sound
    for app in apps:
        info = sg.sigma_registry()[app.decl().name()]
        key = tuple(a.get_id() for a in app.children()[: info.nb])
        if info.nb <= 2:
            groups.setdefault((info.nb, tuple(sorted(key))), []).append(app)
    for (nb, _), grp in groups.items():
        if len(grp) < 2 or len(grp) > 6:
            continue
        for A, Bp in _it.permutations(grp, 2):
            if time.time() > t_end:
                return facts
            bA, bodyA = sg.unfold(A, fc)
            bB, bodyB = sg.unfold(Bp, fc)
            for perm in _it.permutations(range(nb)):
                if not all(bA[i][1].eq(bB[perm[i]][1]) for i in range(nb)):
                    continue
                subs = [(bB[perm[i]][0], bA[i][0]) for i in range(nb)]
                body2 = z3.substitute(bodyB, *subs)
                s = _quick_solver(ob, axioms)
                s.set("rlimit", max(QUICK_RLIMIT // 12, 1))
                for v, n in bA:
                    s.add(v >= 0, v < n)
                s.add(bodyA > body2)
                if s.check() == z3.unsat:
                    facts.append(A <= Bp)
                    break
    return facts


_APP_FACTS = {}  # app id -> list of (frozenset hyp ids, facts, new frontier terms)


def sigma_facts(ob, axioms, depth=2, cheap_only=False):
    """Sum facts (proved in lemmas/SigmaRules.lean).  cheap: empty / singleton ranges.
    full: for a sum whose summand is provably non-negative on its range, the sum is >= 0,
    every summand is <= the sum, sub-sums and partial sums are bounded by it; monotonicity."""
    facts = []
    fc = _FakeCtx()
    done = set()
    all_apps = []
    hyp_ids = frozenset(h.get_id() for h in ob.hyps) | frozenset(a.get_id() for a in axioms)
    frontier = [ob.goal] + list(ob.hyps)
    for _ in range(depth):
        apps = [a for a in _collect_sigma_apps(frontier) if a.get_id() not in done and not _has_var(a)]
        all_apps.extend(apps)
        frontier = []
        for app in apps:
            done.add(app.get_id())
            binders, body = sg.unfold(app, fc)
            # -- cheap facts (no side queries)
            for v, n in binders:
                facts.append(z3.Implies(n <= 0, app == 0))
            if len(binders) >= 2:
                for bi, (v, n) in enumerate(binders):
                    others = [b for j, b in enumerate(binders) if j != bi]
                    try:
                        red = sg.multi_sigma(others, z3.substitute(body, (v, z3.IntVal(0))), fc)
                        facts.append(z3.Implies(n == 1, app == red))
                        frontier.append(red)
                    except Exception:
                        pass
            if len(binders) == 1:
                v, n = binders[0]
                facts.append(z3.Implies(n == 1, app == z3.substitute(body, (v, z3.IntVal(0)))))
                for c_ in (2, 3):
                    facts.append(
                        z3.Implies(n == c_, app == z3.Sum(*[z3.substitute(body, (v, z3.IntVal(q))) for q in range(c_)]))
                    )
            frontier.append(body)
            if cheap_only:
                continue
            # -- facts needing side queries: cached per application (monotone in hyps)
            hit = None
            for hs, fs, fr, _alive in _APP_FACTS.get(app.get_id(), []):
                if hs <= hyp_ids:
                    hit = (fs, fr)
                    break
            if hit is None:
                fs, fr = _expensive_app_facts(ob, axioms, app, binders, body, fc)
                # the tuple keeps app / hypotheses alive: z3 recycles ast ids of dead terms
                _APP_FACTS.setdefault(app.get_id(), []).append((hyp_ids, fs, fr, (app, list(ob.hyps), list(axioms))))
                sg._keep.append(app)
                hit = (fs, fr)
            facts.extend(hit[0])
            frontier.extend(hit[1])
    if not cheap_only:
        try:
            facts.extend(_monotone_facts(ob, axioms, all_apps, fc))
        except Exception:
            pass
    return facts


def _expensive_app_facts(ob, axioms, app, binders, body, fc):
    facts, frontier = [], []
    ks = [v for v, _ in binders]
    rng = z3.And(*[z3.And(v >= 0, v < n) for v, n in binders])
    s = _quick_solver(ob, axioms)
    s.add(rng)
    s.add(body < 0)
    if s.check() != z3.unsat:
        return facts, frontier
    facts.append(app >= 0)
    facts.append(z3.ForAll(ks, z3.Implies(rng, body <= app)))
    if len(binders) == 2:
        # partial sums of a non-negative double sum are bounded by it
        (v1, n1), (v2, n2) = binders
        for (fv, fn_), (sv, sn) in (((v1, n1), (v2, n2)), ((v2, n2), (v1, n1))):
            try:
                part = sg.multi_sigma([(sv, sn)], body, fc)
                facts.append(
                    z3.ForAll([fv], z3.Implies(z3.And(fv >= 0, fv < fn_), z3.And(part <= app, part >= 0)))
                )
            except Exception:
                pass
    facts.extend(_subsum_facts(app, binders, body, fc, ob, axioms, frontier))
    return facts, frontier


def _find_index_terms(body, v):
    """subterms g(.., v) with g a registered strictly-increasing index list function"""
    out = {}
    stack = [body]
    seen = set()
    while stack:
        t = stack.pop()
        if t.get_id() in seen:
            continue
        seen.add(t.get_id())
        if z3.is_app(t):
            ch = t.children()
            if (
                t.decl().kind() == z3.Z3_OP_UNINTERPRETED
                and t.decl().name() in core.INDEX_FNS
                and ch
                and ch[-1].eq(v)
                and not any(core._has_const(c, v) for c in ch[:-1])
            ):
                out[t.get_id()] = t
                continue
            stack.extend(ch)
    return list(out.values())


def _subsum_facts(app, binders, body, fc, ob, axioms, frontier):
    """A-SUBSUM (lemmas/SigmaRules.lean: sum_image_le): a sum of non-negative terms over a
    strictly increasing index list into [0, n) is bounded by the sum over all of [0, n)."""
    facts = []
    for bi, (v, n) in enumerate(binders):
        terms = _find_index_terms(body, v)
        if len(terms) != 1:
            continue
        t = terms[0]
        upper = core.INDEX_FNS[t.decl().name()][1]
        j = fc.fresh_int("j")
        sg._BINDER_IDS[j.get_id()] = j
        body2 = z3.substitute(body, (t, j))
        if core._has_const(body2, v):
            continue
        others = [b for k, b in enumerate(binders) if k != bi]
        # the extended summand must be non-negative on the whole range
        s = _quick_solver(ob, axioms)
        s.add(j >= 0, j < core.zi(upper))
        for ov, on in others:
            s.add(ov >= 0, ov < on)
        s.add(body2 < 0)
        if s.check() != z3.unsat:
            continue
        try:
            full = sg.multi_sigma([(j, core.zi(upper))] + others, body2, fc)
        except Exception:
            continue
        facts.append(app <= full)
        frontier.append(full)
    return facts


def unary_fn_arg_facts(ob, axioms, names=("sqrt", "Phi")):
    """congruence helper: for two applications f(a), f(b) of an uninterpreted real function
    in the goal, try to prove a == b (non-linear arithmetic) under the hypotheses and add
    the equality, so that f(a) == f(b) follows by congruence."""
    apps = {}
    stack = [ob.goal]
    seen = set()
    while stack:
        t = stack.pop()
        if t.get_id() in seen:
            continue
        seen.add(t.get_id())
        if z3.is_app(t):
            if t.decl().kind() == z3.Z3_OP_UNINTERPRETED and t.decl().name() in names and t.num_args() == 1:
                apps.setdefault(t.decl().name(), {})[t.arg(0).get_id()] = t.arg(0)
            stack.extend(t.children())
    facts = []
    for nm, args in apps.items():
        lst = list(args.values())
        if len(lst) > 6:
            continue
        for i in range(len(lst)):
            for j in range(i + 1, len(lst)):
                a, b = lst[i], lst[j]
                s = _quick_solver(ob, [], 2000, qf_only=True)
                # equality is only needed where both are defined: assume every divisor
                # occurring in the two arguments is non-zero
                dens = _denominators(a) + _denominators(b)
                guard = z3.And(*[d != 0 for d in dens]) if dens else z3.BoolVal(True)
                s.add(guard)
                s.add(a != b)
                if s.check() == z3.unsat:
                    facts.append(z3.Implies(guard, a == b))
    return facts


def _denominators(e):
    out = {}
    stack = [e]
    seen = set()
    while stack:
        t = stack.pop()
        if t.get_id() in seen:
            continue
        seen.add(t.get_id())
        if z3.is_app(t):
            if t.decl().kind() == z3.Z3_OP_DIV and not z3.is_rational_value(t.arg(1)):
                out[t.arg(1).get_id()] = t.arg(1)
            stack.extend(t.children())
    return list(out.values())


def _solve(ob, extra, rlimit, qf_only, timeout_ms):
    s = z3.Solver()
    s.set("timeout", timeout_ms)
    s.set("smt.mbqi", False)
    s.set("rlimit", max(int(rlimit), 1))
    for h in list(ob.hyps) + list(extra):
        if qf_only and z3.is_quantifier(h):
            continue
        s.add(h)
    s.add(z3.Not(ob.goal))
    return s, s.check()


def discharge(ob, axioms, timeout_ms=None, want_model=False):
    """-> (status, secs, model|None)  status in proved / refuted / unknown.
    Staged: quantifier-free attempts with the equality certificates first, then the Sigma
    fact generators, quantified hypotheses last."""
    t0 = time.time()
    g = core._bconst(ob.goal)
    if g is True:
        return "proved", 0.0, None
    tmo = timeout_ms or TIMEOUT_MS
    has_sigma = bool(sg.sigma_registry())
    axioms = list(axioms) + list((ob.info or {}).get("facts", []))
    s, r = _solve(ob, axioms, RLIMIT, True, min(tmo, STAGE_MS))
    cheap = []
    if r != z3.unsat and has_sigma:
        cheap = sigma_facts(ob, axioms, cheap_only=True)
        if cheap:
            s, r = _solve(ob, axioms + cheap, RLIMIT, True, min(tmo, STAGE_MS))
    if r != z3.unsat:
        # quantified hypotheses (E-matching), short budget: either quick or hopeless
        s, r = _solve(ob, axioms + cheap, RLIMIT, False, min(tmo, max(2500, STAGE_MS // 3)))
    if r != z3.unsat:
        facts = (sigma_facts(ob, axioms) if has_sigma else []) + unary_fn_arg_facts(ob, axioms)
        if facts or has_sigma:
            s, r = _solve(ob, axioms + facts, RLIMIT, True, min(tmo, 3 * STAGE_MS))
            if r != z3.unsat:
                s, r = _solve(ob, axioms + facts, RLIMIT, False, tmo)
    secs = time.time() - t0
    if r == z3.unsat:
        _cross_check(ob, s)
        return "proved", secs, None
    if r == z3.sat:
        return "refuted", secs, (s.model() if want_model else None)
    return "unknown", secs, None


XCHECK_SOLVERS = (("cvc5-1.0", ["/usr/bin/cvc5", "--tlimit=8000"]), ("z3-4.8.12", ["/usr/bin/z3", "-T:8", "-smt2"]))


def _cross_check(ob, solver):
    """thorough tier (PVC_XCHECK=<dir>): a seeded sample of the queries z3 5.1 found unsat is
    written out as SMT-LIB and handed to the other installed solvers; 'sat' from any of them
    is a disagreement (reported as a checker inconsistency, never as a violation)"""
    out_dir = os.environ.get("PVC_XCHECK")
    if not out_dir:
        return
    import subprocess
    import tempfile
    import zlib

    try:
        text = "(set-logic ALL)\n" + solver.to_smt2()
        if zlib.crc32(text.encode()) % int(os.environ.get("PVC_XCHECK_EVERY", "6")) != 0:
            return
        rec = dict(obligation=ob.name, results={})
        with tempfile.NamedTemporaryFile("w", suffix=".smt2", delete=False, dir=out_dir) as f:
            f.write(text)
            path = f.name
        for name, cmd in XCHECK_SOLVERS:
            try:
                pr = subprocess.run(cmd + [path], capture_output=True, text=True, timeout=12)
                first = (pr.stdout.strip().splitlines() or [""])[0].strip()
                if first in ("sat", "unsat", "unknown"):
                    rec["results"][name] = first
                else:
                    rec["results"][name] = "timeout" if ("timeout" in (pr.stdout + pr.stderr).lower() or not first) else "error"
            except subprocess.TimeoutExpired:
                rec["results"][name] = "timeout"
        if "sat" in rec["results"].values():
            rec["smt2"] = path
        else:
            os.unlink(path)
        with open(os.path.join(out_dir, "results.%d.jsonl" % os.getpid()), "a") as f:
            f.write(json.dumps(rec) + "\n")
    except Exception:  # the cross-check never interferes with the verdict
        pass


def smt2_of(ob, axioms):
    s = _mk_solver(ob, axioms, 1000)
    return s.to_smt2()


# ---------------------------------------------------------------------------------------


class PathOutcome:
    def __init__(self):
        self.obligations = []
        self.axioms = []
        self.exc = None
        self.exc_tb = None
        self.backend = None
        self.hyps = []


def run_paths(contract, repo, cfg, sizes=None, max_paths=400):
    """explore all paths of contract.run in mode P (sizes None) or B"""
    outcomes = []

    def fn(c):
        B = SymBackend(c, repo, sizes)
        c.backend = B
        try:
            contract.run(B, cfg)
        except (PathInfeasible, OutOfReach, TooManyPaths):
            raise
        except OutOfContract as e:
            c.obligations.append(core.Obligation("frame:reads-within-contract", c.hyps(), z3.BoolVal(False), "frame", {"msg": str(e)}))
        except Exception as e:  # real code raised on a feasible path
            c.obligations.append(
                core.Obligation(
                    "no-exception", c.hyps(), z3.BoolVal(False), "exception",
                    {"msg": "%s: %s" % (type(e).__name__, e), "tb": traceback.format_exc(limit=6)},
                )
            )
        return None

    results = core.explore(fn, max_paths=max_paths, sizes=sizes)
    for pr in results:
        po = PathOutcome()
        po.obligations = pr.ctx.obligations
        po.axioms = pr.ctx.fn_axioms
        po.backend = pr.ctx.backend
        po.hyps = pr.ctx.hyps()
        po.reads = pr.ctx.reads
        outcomes.append(po)
    return outcomes


def cfg_key(cfg):
    if not cfg:
        return "-"
    return ",".join("%s=%s" % (k, _short(v)) for k, v in sorted(cfg.items()))


def _short(v):
    s = getattr(v, "name", None) or str(v)
    return s


def verify_config(contract, repo, cfg, sizes=None, timeout_ms=None):
    """returns dict: obligations (list of ObResult), paths, cover_ok, out_of_reach msg"""
    t0 = time.time()
    out = dict(cfg=cfg_key(cfg), results=[], paths=0, cover=None, oor=None, secs=0.0, fails=[])
    tier = "P" if sizes is None else "B"
    try:
        paths = run_paths(contract, repo, cfg, sizes)
    except OutOfReach as e:
        out["oor"] = str(e)
        out["secs"] = time.time() - t0
        return out
    except TooManyPaths as e:
        out["oor"] = "too many paths: %s" % e
        out["secs"] = time.time() - t0
        return out
    out["paths"] = len(paths)
    by_name = {}
    for pi, po in enumerate(paths):
        # cover: hypotheses of the path must be satisfiable (vacuity guard)
        s = z3.Solver()
        s.set("timeout", 3000)
        for h in po.hyps:
            s.add(h)
        r = s.check()
        if r == z3.unsat:
            out["cover"] = "path %d has contradictory hypotheses" % pi
        elif out["cover"] is None:
            out["cover"] = "ok" if r == z3.sat else "ok(unknown)"
        seen = set()
        for ob in po.obligations:
            dk = (ob.name, ob.goal.get_id(), tuple(h.get_id() for h in ob.hyps))
            if dk in seen:
                continue
            seen.add(dk)
            global MONOTONE_WALL_S
            if out["fails"] and time.time() - t0 > SLOW_TASK_S:
                # the function already has an undischarged obligation and the task is far beyond
                # anything seen on a tree that verifies: finish the remaining obligations on a
                # short budget (every successful call is < 2 s) so that the task reports what it
                # found instead of running into its hard deadline
                tm, MONOTONE_WALL_S = min(timeout_ms or TIMEOUT_MS, 6000), 5.0
            else:
                tm = timeout_ms
            status, secs, _ = discharge(ob, po.axioms, tm)
            rec = by_name.setdefault(ob.name, dict(status="proved", secs=0.0, kind=ob.kind, n=0, detail=None))
            rec["secs"] += secs
            rec["n"] += 1
            if status != "proved":
                if rec["status"] == "proved" or (rec["status"] == "unknown" and status == "refuted"):
                    rec["status"] = status
                    rec["detail"] = ob.info.get("msg") if ob.info else None
                out["fails"].append((pi, ob, po))
    for name, rec in by_name.items():
        out["results"].append(ObResult(name, rec["status"], rec["secs"], rec["kind"], rec["detail"], tier))
    out["secs"] = time.time() - t0
    return out


# ---------------------------------------------------------------------------------------
# concretisation and replay


def _model_value(m, v):
    r = m.eval(v, model_completion=True)
    if z3.is_int_value(r):
        return r.as_long()
    if z3.is_rational_value(r):
        f = r.as_fraction()
        return float(Fraction(f.numerator, f.denominator))
    if z3.is_algebraic_value(r):
        return float(r.approx(12).as_fraction())
    if z3.is_true(r):
        return True
    if z3.is_false(r):
        return False
    raise ValueError("cannot extract %s" % r)


def extract_values(backend, model):
    vals = {}
    for name, d in backend.ingredients.items():
        kind = d[0]
        if kind == "tensor":
            shape, cells = d[1], d[2]
            import numpy as np

            a = np.zeros(shape, dtype=float)
            for idx, sf in cells.items():
                isnan = sf.u is True or (core.is_z3(sf.u) and _model_value(model, sf.u))
                a[idx] = float("nan") if isnan else float(_model_value(model, sf.v))
            vals[name] = a.tolist()
        elif kind == "idx":
            vals[name] = [int(_model_value(model, v)) for v in d[1]]
        elif kind == "flag":
            vals[name] = bool(_model_value(model, d[1]))
        elif kind == "real":
            isnan = core.is_z3(d[2]) and _model_value(model, d[2])
            vals[name] = float("nan") if isnan else float(_model_value(model, d[1]))
        elif kind == "int":
            vals[name] = int(_model_value(model, d[1]))
    return vals


def replay_concrete(contract, cfg, sizes, values):
    """run the contract on the installed package with real numpy. -> (failures, exc)"""
    CB = ConcreteBackend(values, sizes)
    exc = None
    import warnings

    try:
        with warnings.catch_warnings():
            warnings.simplefilter("ignore")
            contract.run(CB, cfg)
    except Exception as e:
        exc = None if is_frame_breach(e) else "%s: %s" % (type(e).__name__, e)
    return CB.failures, exc, CB.checked


def _canon_sizes(d, space):
    """lengths of subtotals that do not exist (index >= S) are irrelevant: normalise"""
    import re

    out = dict(d)
    for name in d:
        mm = re.match(r"^(.*)\.(add|sub)\.n\[(\d+)\]$", name)
        if mm and (mm.group(1) + ".S") in d and int(mm.group(3)) >= d[mm.group(1) + ".S"]:
            out[name] = space[name][0]
    return out


def iter_size_configs(space, seed=0):
    """all canonical size assignments, by increasing total 'excess over the minimum';
    order within one total is shuffled by seed"""
    names = sorted(space)
    doms = [sorted(space[n]) for n in names]
    rnd = random.Random(seed)
    max_excess = sum(len(d) - 1 for d in doms)

    def rec(i, left, cur):
        if i == len(names):
            if left == 0:
                yield dict(cur)
            return
        rest = sum(len(d) - 1 for d in doms[i + 1 :])
        for k in range(min(left, len(doms[i]) - 1), -1, -1):
            if left - k > rest:
                break
            cur.append((names[i], doms[i][k]))
            yield from rec(i + 1, left - k, cur)
            cur.pop()

    for total in range(max_excess + 1):
        batch = []
        for d in rec(0, total, []):
            if _canon_sizes(d, space) == d:
                batch.append(d)
                if len(batch) > 50000:
                    break
        rnd.shuffle(batch)
        for d in batch:
            yield d


def size_configs(contract, cfg, seed, cap=60):
    """first `cap` candidate concrete size assignments (small total first)"""
    space = contract.size_space(cfg)
    if not space:
        return [{}]
    out = []
    for d in iter_size_configs(space, seed):
        out.append(d)
        if len(out) >= cap:
            break
    return out


def hint_sizes(contract, cfg, ob, po):
    """size configuration suggested by the (candidate) model of the failed tier-P query.
    The model may be spurious w.r.t. the Sigma abstraction; only its sizes are used."""
    import re

    s = _mk_solver(ob, po.axioms, 5000)
    r = s.check()
    if r == z3.unsat:
        return None
    try:
        m = s.model()
    except z3.Z3Exception:
        return None
    B = po.backend
    space = contract.size_space(cfg)
    sizes = {}
    for name, dom in space.items():
        v = None
        try:
            if name in B.size_syms:
                v = _model_value(m, zi_(B.size_syms[name]))
            else:
                mm = re.match(r"^(.*)\[(\d+)\]$", name)
                if mm and mm.group(1) in B.size_fns:
                    v = _model_value(m, B.size_fns[mm.group(1)](z3.IntVal(int(mm.group(2)))))
        except Exception:
            v = None
        if v is None:
            v = dom[0]
        v = int(v)
        sizes[name] = min(max(v, min(dom)), max(dom) + 1)
    return sizes


def zi_(x):
    return core.zi(x)


_CELL_SUFFIX = re.compile(r"@\d+(,\d+)*")


def base_name(ob_name):
    """obligation name without the per-cell suffix added in mode B (name[i,j])"""
    return _CELL_SUFFIX.sub("", ob_name)


def find_counterexample(contract, repo, cfg, ob_name, seed=0, budget_s=60, hint=None):
    """search small sizes (mode B) for a model refuting `ob_name`, then replay it (mode C).
    -> dict(found, sizes, values, failures, exc) or None"""
    t0 = time.time()
    tried = 0
    space = contract.size_space(cfg)
    cands = iter_size_configs(space, seed) if space else iter([{}])
    if hint:
        cands = itertools.chain([hint], cands)
    for sizes in cands:
        if time.time() - t0 > budget_s:
            break
        try:
            paths = run_paths(contract, repo, cfg, sizes)
        except (OutOfReach, TooManyPaths, KeyError):
            continue
        tried += 1
        for po in paths:
            for ob in po.obligations:
                if base_name(ob.name) != base_name(ob_name):
                    continue
                status, secs, model = discharge(ob, po.axioms, 10000, want_model=True)
                if status != "refuted" or model is None:
                    continue
                try:
                    values = extract_values(po.backend, model)
                except Exception:
                    continue
                failures, exc, checked = replay_concrete(contract, cfg, sizes, values)
                if failures or exc:
                    return dict(
                        found=True, sizes=sizes, values=values, failures=failures, exc=exc,
                        obligation=ob.name, tried=tried, msg=(ob.info or {}).get("msg"),
                    )
    return dict(found=False, tried=tried)


def verify_bounded(contract, repo, cfg, seed, thorough=False):
    """Bounded stand-in (tier B): same contract and VC generator, concrete sizes from the
    contract's size space, symbolic contents, path-complete.  Never counted as proved."""
    cap = getattr(contract, "thorough_cap", 60) if thorough else getattr(contract, "quick_cap", 40)
    by_name = {}
    failed = []
    n_cfg = n_oor = 0
    sizes_seen = []
    for sizes in size_configs(contract, cfg, seed, cap=cap):
        try:
            out = verify_config(contract, repo, cfg, sizes=sizes, timeout_ms=10000)
        except KeyError:
            continue
        if out["oor"]:
            n_oor += 1
            by_name.setdefault("out-of-reach", dict(status="unknown", secs=0.0, kind="reach", detail=out["oor"]))
            continue
        n_cfg += 1
        sizes_seen.append(sizes)
        for r in out["results"]:
            rec = by_name.setdefault(base_name(r.name), dict(status="proved", secs=0.0, kind=r.kind, detail=None))
            rec["secs"] += r.secs
            if r.status != "proved" and rec["status"] == "proved":
                rec["status"] = r.status
                rec["detail"] = r.detail
        seen = set()
        for pi, ob, po in out["fails"]:
            if ob.name in seen:
                continue
            seen.add(ob.name)
            status, secs, model = discharge(ob, po.axioms, 10000, want_model=True)
            rp = None
            if status == "refuted" and model is not None:
                try:
                    values = extract_values(po.backend, model)
                    failures, exc, checked = replay_concrete(contract, cfg, sizes, values)
                    if failures or exc:
                        rp = dict(found=True, sizes=sizes, values=values, failures=failures, exc=exc,
                                  obligation=ob.name, msg=(ob.info or {}).get("msg"))
                except Exception as e:  # extraction problem: undecided
                    rp = None
            failed.append(dict(name=ob.name, replay=rp, reason="bounded obligation %s at sizes %s" % (status, sizes)))
        if failed:
            break
    results = [ObResult(n, r["status"], r["secs"], r["kind"], r["detail"], "B") for n, r in by_name.items()]
    return dict(results=results, failed=failed,
                summary=dict(size_configs=n_cfg, out_of_reach_configs=n_oor, bound=contract.size_space(cfg)))


def conform(contract, cfg, seed, n=4):
    """Facade / contract validation: run the contract in mode C (installed package, real
    numpy) on random inputs drawn from the contract's state description."""
    import zlib

    rnd = random.Random((zlib.crc32((contract.name + cfg_key(cfg)).encode()) & 0xFFFFFF) * 7919 + seed)
    space = contract.size_space(cfg)
    fails = []
    runs = 0
    import warnings

    for _ in range(n):
        sizes = {k: rnd.choice(v) for k, v in space.items()}
        CB = harness.RandomConcreteBackend(rnd, sizes)
        try:
            with warnings.catch_warnings():
                warnings.simplefilter("ignore")
                contract.run(CB, cfg)
            runs += 1
            if CB.failures:
                fails.append(dict(found=True, sizes=sizes, values=CB.values, failures=CB.failures, exc=None))
        except harness.SkipInput:
            continue
        except Exception as e:
            runs += 1
            if is_frame_breach(e):
                # the real function read a collaborator attribute its contract does not grant:
                # reported once by the frame obligation of the symbolic run, not as a failing input
                continue
            fails.append(dict(found=True, sizes=sizes, values=CB.values, failures=[],
                              exc="%s: %s" % (type(e).__name__, e)))
    return dict(runs=runs, failures=fails)


def is_frame_breach(e):
    return isinstance(e, AttributeError) and "SimpleNamespace" in str(e)
