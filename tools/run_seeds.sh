#!/bin/sh
# re-run every seeded change against the check of the property it breaks (scratch copies)
out=/verif/seeded/RESULTS.txt; : > $out
for d in /verif/seeded/C*/; do
  id=$(basename $d)
  echo "##### seed $id" >> $out
  SEED_TIMEOUT=1200 /verif/tools/try_seed.sh $d $id 2>&1 | grep -v "^  obligation" | tail -4 >> $out
done
