"""pvc -- contract-based deductive verification of crunch-cube's real code.

See /verif/DESIGN.md.  The engine re-loads /repo/src on every run (pvc.loader), runs the
real function bodies over symbolic values (pvc.core / pvc.symnp) and discharges the
resulting obligations with z3 (pvc.discharge).
"""
import os
import sys

_here = os.path.dirname(os.path.abspath(__file__))
_deps = os.path.join(os.path.dirname(_here), ".deps")
if os.path.isdir(_deps) and _deps not in sys.path:
    sys.path.insert(0, _deps)
